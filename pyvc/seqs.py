"""Sequences, slices, ranges, objects."""
from __future__ import annotations

import z3

from . import values as V
from .values import SBool, SInt, SOpt, Sym, Unsupported, both, cur, either, imax, imin, ite, mk_bool, mk_int, neg


def zint(v):
    return V._z(v)


class SSlice(Sym):
    __slots__ = ("start", "stop", "step")

    def __init__(self, start, stop, step):
        self.start, self.stop, self.step = start, stop, step

    def __repr__(self):
        return f"SSlice({self.start!r},{self.stop!r},{self.step!r})"


def _sign_pos(step):
    """True/False: is step > 0 (forks once when symbolic; natively a plain comparison)."""
    if isinstance(step, int):
        return step > 0
    return bool(step > 0)


def slice_indices(slc, n):
    """CPython's PySlice_AdjustIndices (via slice.indices): dual use (SSlice or builtin slice)."""
    st = cur() if V._current else None
    step, start, stop = slc.step, slc.start, slc.stop
    if st is not None:
        step, start, stop = st.force(step), st.force(start), st.force(stop)
    if step is None:
        step = 1
    if st is not None:
        st.partial(V._cmp("!=", step, 0) if V.is_sym(step) else step != 0, ValueError, "slice step cannot be zero")
    elif step == 0:
        raise ValueError("slice step cannot be zero")
    negstep = not _sign_pos(step)
    lower = -1 if negstep else 0
    upper = n - 1 if negstep else n

    def clamp(x, default):
        if x is None:
            return default
        return ite(x < 0, imax(x + n, lower), imin(x, upper))

    start = clamp(start, upper if negstep else lower)
    stop = clamp(stop, lower if negstep else upper)
    return start, stop, step


def _sign_pos(step):
    """True/False: is step > 0 (forks once when symbolic; natively a plain comparison)."""
    if isinstance(step, int):
        return step > 0
    return bool(step > 0)


def range_len(start, stop, step):
    """len(range(start, stop, step)), step != 0 (dual use). Forks on the sign of a symbolic step."""
    if _sign_pos(step):
        return imax(0, (stop - start + step - 1) // step)
    return imax(0, (start - stop - step - 1) // (-step))


def in_range(x, start, stop, step):
    """x in range(start, stop, step) (dual use)."""
    if _sign_pos(step):
        return both(start <= x, x < stop, (x - start) % step == 0)
    return both(stop < x, x <= start, (start - x) % (-step) == 0)


class SRange(Sym):
    __slots__ = ("start", "stop", "step")

    def __init__(self, start, stop, step=1):
        self.start, self.stop, self.step = start, stop, step

    @property
    def length(self):
        return range_len(self.start, self.stop, self.step)

    def get(self, i):
        return self.start + i * self.step

    def contains(self, x):
        return in_range(x, self.start, self.stop, self.step)

    def __repr__(self):
        return f"SRange({self.start!r},{self.stop!r},{self.step!r})"


# ---------------------------------------------------------------------------------------------


class SSeq(Sym):
    """Immutable sequence of symbolic length. `getter(i)` gives the element for an in-range index."""

    def __init__(self, length, getter, shape=None, psum=None, name=None):
        self.length = length
        self.getter = getter
        self.shape = shape
        self.psum = psum  # k -> sum of the first k elements (int sequences; or of measure(element))
        self.name = name
        self.measure = None  # element -> int, when psum sums a measure of the elements
        # component prefix sums (sequences of tuples): {c: k -> sum of elt[c] over the first k elements}; maintained
        # structurally by fresh_seq / to_sseq / seq_concat / seq_slice1 / seq_update exactly as `psum` is
        self.cpsum = {}
        # run-length view (sequences of (value, count) pairs): position p -> value of the run covering p; a model
        # field like `psum`: an uninterpreted function for a fresh sequence (linked to the runs by the axiom
        # `run_link`), derived structurally for concatenations / updates / slices / literals. None: not modelled.
        self.expand = None

    def get(self, i):
        return self.getter(i)

    def __repr__(self):
        return f"SSeq<{self.name}>(len={self.length!r})"

    def sum(self):
        if self.psum is None:
            raise Unsupported("sum() of a sequence without a prefix-sum model")
        return self.psum(self.length)


def _num0(v):
    """Integer value of an element for prefix sums: None counts as 0."""
    if v is None:
        return z3.IntVal(0)
    if isinstance(v, SOpt):
        inner = v.val
        return z3.If(v.isnone, z3.IntVal(0), zint(inner) if inner is not None else z3.IntVal(0))
    return zint(v)


def _summable(x):
    return x is None or V.is_num(x) or (isinstance(x, SOpt) and (x.val is None or V.is_num(x.val)))


def fresh_seq(st, n, elem_shape, hint, measure=None):
    """A fresh sequence of length n: struct-of-arrays over the element shape.

    Nested lists (`ListOf(ListOf(T))`, e.g. a grid of rows of cells): an element is itself an immutable
    sequence *value* (an SSeq) whose length is `f#len(i)` and whose cells are `f[](i, j)` — the leaf functions
    simply take one more index per nesting level.  Rows are held BY VALUE: the model has no aliasing between
    rows (two slots never denote the same list object); see `RowRef` for how `grid[i].insert(...)` writes back.

    `measure` (optional, element -> int): the sequence carries the prefix-sum model field of
    measure(element) instead of the elements themselves (e.g. the rows of the canvases in a list)."""
    from . import shapes as S

    base = st.fresh_name(hint)

    def mk(shape, path, nidx=1):
        dom = [z3.IntSort()] * nidx
        zs = lambda idx: [zint(i) for i in idx]  # noqa: E731
        if isinstance(shape, S._Int):
            f = z3.Function(f"{base}{path}", *dom, z3.IntSort())
            lo, hi = shape.lo, shape.hi

            def g(*idx, f=f, lo=lo, hi=hi):
                e = f(*zs(idx))
                s = cur()
                if lo is not None:
                    s.assume(e >= lo)
                if hi is not None:
                    s.assume(e <= hi)
                return mk_int(e)

            return g
        if isinstance(shape, S._Bool):
            f = z3.Function(f"{base}{path}", *dom, z3.BoolSort())
            return lambda *idx, f=f: mk_bool(f(*zs(idx)))
        if isinstance(shape, S.Atom):
            if len(shape.domain) == 1:
                return lambda *idx, d=shape.domain[0]: d
            f = z3.Function(f"{base}{path}", *dom, z3.IntSort())

            def g(*idx, f=f, dom=shape.domain):
                e = f(*zs(idx))
                cur().assume(z3.Or(*[e == V.atom_code(d) for d in dom]))
                return V.SAtom(e, dom)

            return g
        if isinstance(shape, S.Opaque):
            f = z3.Function(f"{base}{path}", *dom, S.opaque_sort(shape.kind))
            return lambda *idx, f=f, shape=shape: V.SOpaque(shape.kind, f(*zs(idx)), dict(shape.meta))
        if isinstance(shape, S.Opt):
            f = z3.Function(f"{base}{path}?", *dom, z3.BoolSort())
            inner = mk(shape.inner, path + "v", nidx)
            return lambda *idx, f=f, inner=inner: SOpt(f(*zs(idx)), inner(*idx))
        if isinstance(shape, S.Tup):
            parts = [mk(s, f"{path}.{k}", nidx) for k, s in enumerate(shape.items)]
            return lambda *idx, parts=parts: tuple(p(*idx) for p in parts)
        if isinstance(shape, S.Const):
            return lambda *idx, v=shape.value: v
        if isinstance(shape, S.ListOf):
            lf = z3.Function(f"{base}{path}#len", *dom, z3.IntSort())
            inner = mk(shape.elem, path + "[]", nidx + 1)
            # every row has a length within the declared bounds: one axiom with the trivial trigger lf(i)
            qs = [z3.Int(f"{base}{path}#i{k}") for k in range(nidx)]
            bounds = [lf(*qs) >= shape.min_len] + ([lf(*qs) <= shape.max_len] if shape.max_len is not None else [])
            st.assume(z3.ForAll(qs, z3.And(*bounds)))

            if getattr(shape, "measure", None) is not None:
                # rows that carry the prefix sum of measure(cell) (as a top-level list with `measure` does): one more
                # leaf function msum(row indices, k), its defining equation instantiated at every cell that is read
                mf = z3.Function(f"{base}{path}#msum", *dom, z3.IntSort(), z3.IntSort())

                def g(*idx, lf=lf, inner=inner, shape=shape, mf=mf):  # noqa: F811
                    zi = zs(idx)

                    def getter(j):
                        v = inner(*idx, j)
                        zj = zint(j)
                        cur().assume(mf(*zi, zj + 1) == mf(*zi, zj) + zint(shape.measure(v)))
                        return v

                    def psum(k):
                        cur().assume(mf(*zi, z3.IntVal(0)) == 0)
                        return mk_int(mf(*zi, zint(k)))

                    r = SSeq(mk_int(lf(*zi)), getter, shape.elem, psum, name=f"{base}{path}[]")
                    r.measure = shape.measure
                    r.row_id = (f"{base}{path}", tuple(zi))  # identity of the row (see below)
                    return r

                return g

            # rows of records (Tup) / variant records (Union of Tups): component prefix sums of each row, for the
            # plain-int components every alternative has -- one function per component taking the row's indices and
            # the position, defining equation instantiated wherever an element of the row is read (as for a flat list)
            ralts = shape.elem.cases() if isinstance(shape.elem, (S.Union, S.Tup)) else []
            rcomps = []
            if ralts and all(isinstance(a_, S.Tup) for a_ in ralts):
                rcomps = [c for c in range(min(len(a_.items) for a_ in ralts)) if all(isinstance(a_.items[c], S._Int) for a_ in ralts)]
            rfns = {c: z3.Function(f"{base}{path}[].{c}$psum", *dom, z3.IntSort(), z3.IntSort()) for c in rcomps}

            def g(*idx, lf=lf, inner=inner, shape=shape, rfns=rfns):
                def rget(j):
                    v = inner(*idx, j)
                    zj = zint(j)
                    for c, f in rfns.items():
                        cur().assume(f(*zs(idx), zj + 1) == f(*zs(idx), zj) + zint(elt_comp(v, c)))
                    return v

                row = SSeq(mk_int(lf(*zs(idx))), rget if rfns else (lambda j: inner(*idx, j)), shape.elem, None, name=f"{base}{path}[]")
                for c, f in rfns.items():

                    def cps(k, f=f):
                        cur().assume(f(*zs(idx), z3.IntVal(0)) == 0)
                        return mk_int(f(*zs(idx), zint(k)))

                    row.cpsum[c] = cps
                # identity of the row: (the nested list's name, the row's index terms) -- rows are immutable values, so a
                # deterministic function of a row is a function of this identity (protocol.encode_arg)
                row.row_id = (f"{base}{path}", tuple(zs(idx)))
                return row

            return g
        if isinstance(shape, S.Union):
            # elements of several structurally different shapes (size tuples of unknown arity): a tag per index
            alts = shape.cases()
            tag = z3.Function(f"{base}{path}#tag", *dom, z3.IntSort())
            getters = [mk(a, f"{path}|{k}", nidx) for k, a in enumerate(alts)]

            def g(*idx, tag=tag, getters=getters):
                t = tag(*zs(idx))
                cur().assume(z3.And(t >= 0, t < len(getters)))
                return V.SCases([(t == k, gk(*idx)) for k, gk in enumerate(getters)])

            return g
        if hasattr(shape, "seq_getter"):
            # a shape that brings its own element model (pyvc.fmap.MapOf: dicts with symbolic keys as elements)
            return shape.seq_getter(st, base, path, nidx)
        if isinstance(shape, S.Obj):
            parts = {k: mk(s_, f"{path}.{k}", nidx) for k, s_ in shape.fields.items()}

            def g(*idx, parts=parts, shape=shape):
                o = SObj(shape.cls, {k: p(*idx) for k, p in parts.items()}, base_list=shape.base_list)
                o.shape = shape
                return o

            return g
        raise Unsupported(f"sequence element shape {shape!r}")

    getter = mk(elem_shape, "")
    psum = None
    opt_int = isinstance(elem_shape, S.Opt) and isinstance(elem_shape.inner, S._Int)
    if measure is not None:
        ps = z3.Function(f"{base}$msum", z3.IntSort(), z3.IntSort())
        inner_get = getter

        def getter(i, ps=ps, inner_get=inner_get):  # noqa: F811
            v = inner_get(i)
            zi = zint(i)
            cur().assume(ps(zi + 1) == ps(zi) + zint(measure(v)))
            return v

        def psum(k, ps=ps):
            cur().assume(ps(z3.IntVal(0)) == 0)
            return mk_int(ps(zint(k)))

        r = SSeq(n, getter, elem_shape, psum, name=base)
        r.measure = measure
        return r
    if isinstance(elem_shape, S._Int) or opt_int:
        # prefix-sum model field; for Optional[int] elements None counts as 0
        ps = z3.Function(f"{base}$psum", z3.IntSort(), z3.IntSort())
        inner_get = getter
        lo = elem_shape.inner.lo if opt_int else elem_shape.lo

        def getter(i, ps=ps, inner_get=inner_get):  # noqa: F811
            v = inner_get(i)
            zi = zint(i)
            cur().assume(ps(zi + 1) == ps(zi) + _num0(v))
            return v

        def psum(k, ps=ps, lo=lo):
            s = cur()
            s.assume(ps(z3.IntVal(0)) == 0)
            zk = zint(k)
            if lo is not None and lo >= 0:
                s.assume(ps(zk) >= 0)
            return mk_int(ps(zk))

    r = SSeq(n, getter, elem_shape, psum, name=base)
    if isinstance(elem_shape, S.Union):
        # variant records (e.g. layout segments (cols, offs) | (cols, offs, end)): component prefix sums for the
        # plain-int components that EVERY alternative has at the same position -- same model field as for Tup
        # elements below, the summand being the non-forking selection `elt_comp` over the alternatives
        alts = elem_shape.cases()
        comps = []
        if alts and all(isinstance(a_, S.Tup) for a_ in alts):
            comps = [c for c in range(min(len(a_.items) for a_ in alts)) if all(isinstance(a_.items[c], S._Int) for a_ in alts)]
        if comps:
            fns = {c: z3.Function(f"{base}.{c}$psum", z3.IntSort(), z3.IntSort()) for c in comps}
            var_get = getter

            def getter(i, fns=fns, var_get=var_get):  # noqa: F811
                v = var_get(i)
                zi = zint(i)
                for c, f in fns.items():
                    cur().assume(f(zi + 1) == f(zi) + zint(elt_comp(v, c)))
                return v

            r.getter = getter
            for c, f in fns.items():

                def cps(k, f=f):
                    cur().assume(f(z3.IntVal(0)) == 0)
                    return mk_int(f(zint(k)))

                r.cpsum[c] = cps
    if isinstance(elem_shape, S.Tup):
        # component prefix sums for the plain-int components of a tuple element (e.g. the run lengths of a
        # run-length list [(attr, run), ...]): one uninterpreted function per component, defining equation
        # cps(i+1) = cps(i) + elt(i)[c] instantiated at every index that is read (as for `psum` above)
        comps = [c for c, sh in enumerate(elem_shape.items) if isinstance(sh, S._Int)]
        if comps:
            fns = {c: z3.Function(f"{base}.{c}$psum", z3.IntSort(), z3.IntSort()) for c in comps}
            tup_get = getter

            def getter(i, fns=fns, tup_get=tup_get):  # noqa: F811
                v = tup_get(i)
                zi = zint(i)
                for c, f in fns.items():
                    cur().assume(f(zi + 1) == f(zi) + zint(v[c]))
                return v

            r.getter = getter
            for c, f in fns.items():

                def cps(k, f=f):
                    cur().assume(f(z3.IntVal(0)) == 0)
                    return mk_int(f(zint(k)))

                r.cpsum[c] = cps
        if len(elem_shape.items) == 2 and 1 in r.cpsum:
            r.expand = mk(elem_shape.items[0], "$at")
    return r


def run_link(s, j):
    """Defining axiom of the run-length view of a fresh sequence s of (value, count >= 0) pairs, for run j:
    every position p with cps(j) <= p < cps(j+1) expands to the value of run j (a quantified fact over p).
    Non-negative counts make the covering run unique, so the instances never contradict one another."""
    from . import shapes as S

    if isinstance(s, LRef):
        s = s.seq
    if not isinstance(s, SSeq) or s.expand is None or 1 not in s.cpsum:
        raise Unsupported("run_link: not a run-length sequence")
    sh = s.shape
    if not (isinstance(sh, S.Tup) and isinstance(sh.items[1], S._Int) and sh.items[1].lo is not None and sh.items[1].lo >= 0):
        raise Unsupported("run_link: run counts not known to be non-negative")
    from .values import forall, opt_eq

    v = s.get(j)[0]
    lo, hi = s.cpsum[1](j), s.cpsum[1](j + 1)

    def same(x, y):
        if isinstance(x, tuple):
            return both(*[same(a, b) for a, b in zip(x, y)])
        return opt_eq(x, y)

    from .values import implies

    cur().assume(implies(both(V._cmp(">=", j, 0), V._cmp("<", j, s.length)), forall(lo, hi, lambda p: same(s.expand(p), v), check_empty=False)))


def _tuple_expand(items):
    if not items or not all(isinstance(x, tuple) and len(x) == 2 and V.is_num(x[1]) for x in items):
        return None

    def ex(p, items=items):
        acc = 0
        bounds = []
        for x in items:
            acc = acc + x[1]
            bounds.append(acc)
        r = items[-1][0]
        for j in range(len(items) - 2, -1, -1):
            r = ite(V._cmp("<", p, bounds[j]), items[j][0], r)
        return r

    return ex


def elt_comp(x, c):
    """Component c of a sequence element that is a tuple, or a variant value (SCases) every alternative of which is
    a tuple with an int-like component c (variant records sharing their leading fields, e.g. the layout segments
    (cols, offs) | (cols, offs, end) | (cols, offs, bytes)): a non-forking if-then-else over the alternatives.
    None when the element has no int-like component c.  (CPython: `x[c]` of whichever tuple x is.)"""
    def intlike(v):
        return V.is_num(v) and not isinstance(v, (bool, SBool))

    if isinstance(x, tuple):
        return x[c] if c < len(x) and intlike(x[c]) else None
    if isinstance(x, V.SCases):
        vals = [elt_comp(v, c) for _g, v in x.cases]
        if not vals or any(v is None for v in vals):
            return None
        r = vals[-1]
        for (g, _v), val in zip(reversed(x.cases[:-1]), reversed(vals[:-1])):
            r = ite(mk_bool(g), val, r)
        return r
    return None


def _tuple_cpsum(items):
    """Component prefix sums of a concrete tuple of tuples (int-like components only).  Items may differ in arity
    and may be variant values (SCases): component c is summed when every item has an int-like component c."""
    out = {}
    if not items or not all(isinstance(x, (tuple, V.SCases)) for x in items):
        return out
    def arity(x):
        if isinstance(x, tuple):
            return len(x)
        return min(len(v) for _g, v in x.cases) if all(isinstance(v, tuple) for _g, v in x.cases) else 0

    ar = min(arity(x) for x in items)
    for c in range(ar):
        if all(elt_comp(x, c) is not None for x in items):

            def cps(k, c=c, items=items):
                acc = [0]
                for x in items:
                    acc.append(acc[-1] + elt_comp(x, c))
                if isinstance(k, int):
                    return acc[max(0, min(k, len(items)))]
                r = acc[-1]
                for j in range(len(items) - 1, -1, -1):
                    r = ite(V._cmp("<=", k, j), acc[j], r)
                return r

            out[c] = cps
    return out


def seq_cpsum(s, c):
    """k -> sum of elt[c] over the first k elements of s (a sequence of tuples), or None when not modelled."""
    if isinstance(s, LRef):
        s = s.seq
    if isinstance(s, (tuple, list)):
        items = tuple(s)
        if not items:
            return lambda k: 0
        return _tuple_cpsum(items).get(c)
    if isinstance(s, SSeq):
        return s.cpsum.get(c)
    return None


def seq_len(s):
    if isinstance(s, (tuple, list)):
        return len(s)
    if getattr(s, "is_text", False):
        return s.length
    if isinstance(s, (SSeq, SRange)):
        return s.length
    if isinstance(s, LRef):
        return seq_len(s.seq)
    raise Unsupported(f"len of {type(s).__name__}")


def seq_get(s, i):
    """Element i, 0 <= i < len assumed."""
    if isinstance(s, LRef):
        s = s.seq
    if isinstance(s, (tuple, list)):
        if isinstance(i, int):
            return s[i]
        # symbolic index into a concrete sequence: fork over positions
        if not s:
            raise Unsupported("index into an empty sequence")
        st = cur()
        k = st.choose([V._cmp("==", i, j) for j in range(len(s))])
        return s[k]
    if isinstance(s, (SSeq, SRange)) or getattr(s, "is_text", False):
        return s.get(i)
    raise Unsupported(f"index of {type(s).__name__}")


def to_sseq(s, shape=None, measure=None):
    """View a concrete tuple/list as an SSeq."""
    if isinstance(s, SSeq):
        return s
    if isinstance(s, LRef):
        return to_sseq(s.seq, shape, measure)
    if isinstance(s, SRange):
        r = SSeq(s.length, s.get, None, None, "range")
        r.range = s
        return r
    items = tuple(s)

    def getter(i, items=items):
        if isinstance(i, int):
            return items[i]
        r = items[-1]
        for j in range(len(items) - 2, -1, -1):
            r = ite(V._cmp("==", i, j), items[j], r)
        return r

    psum = None
    if measure is not None or all(_summable(x) for x in items):

        def psum(k, items=items):
            acc = [0]
            for x in items:
                if measure is not None:
                    acc.append(acc[-1] + measure(x))
                    continue
                acc.append(acc[-1] + (x if V.is_num(x) else mk_int(_num0(x))))
            if isinstance(k, int):
                return acc[k]
            r = acc[-1]
            for j in range(len(items) - 1, -1, -1):
                r = ite(V._cmp("==", k, j), acc[j], r)
            return r

    if shape is None and items:
        from .shapes import shape_of

        try:
            shape = shape_of(items[0])
        except Unsupported:
            shape = None
    r = SSeq(len(items), getter, shape, psum, "lit")
    r.measure = measure
    r.cpsum = _tuple_cpsum(items)
    r.expand = _tuple_expand(items)
    if not items:
        r.empty_lit = True
    return r


def comp_psum_fn(s, c):
    """The prefix-sum function of component `c` of a sequence `s` of int tuples (c=None: of the int elements
    themselves): F(k) = sum of s[q][c] for q < k.  One uninterpreted function per (sequence object, component),
    with the definitional axioms F(0) = 0 (asserted here) and F(q+1) = F(q) + s[q][c] instantiated groundly by
    `comp_psum_unfold`.  Int sequences with a prefix-sum model field use that field."""
    if isinstance(s, LRef):
        s = s.seq
    if not isinstance(s, SSeq):
        raise Unsupported("component prefix sum of a sequence of concrete length")
    d = s.__dict__.setdefault("_cps", {})
    if c not in d:
        d[c] = z3.Function(cur().fresh_name(f"{s.name or 'seq'}$csum{'' if c is None else c}"), z3.IntSort(), z3.IntSort())
    return d[c]


def comp_psum(s, c, k):
    """sum of s[q][c] for q < k (0 <= k <= len(s)); see comp_psum_fn."""
    if isinstance(s, LRef):
        s = s.seq
    if c is None and isinstance(s, SSeq) and s.psum is not None:
        return s.psum(k)
    f = comp_psum_fn(s, c)
    cur().assume(f(z3.IntVal(0)) == 0)
    return mk_int(f(zint(k)))


def comp_psum_unfold(s, c, q):
    """Ground instance at q of the definition of the component prefix sum: 0 <= q < len => F(q+1) = F(q) + s[q][c]."""
    if isinstance(s, LRef):
        s = s.seq
    if c is None and isinstance(s, SSeq) and s.psum is not None:
        s.get(q)  # the model field's getter instantiates its own axiom
        return
    f = comp_psum_fn(s, c)
    st = cur()
    zq = zint(q)
    e = s.get(q)
    x = e if c is None else e[c]
    st.assume(z3.Implies(z3.And(zq >= 0, zq < zint(s.length)), f(zq + 1) == f(zq) + zint(x)))


def seq_concat(a, b):
    if isinstance(a, (tuple, list)) and isinstance(b, (tuple, list)):
        return tuple(a) + tuple(b)
    # a sequence value with a structure of its own (contract-side model, e.g. the shard list of a canvas: explicit
    # head shards + an unknown tail) says itself what a concatenation with it is: `concat_model(other, self_is_left)`
    # returns the new sequence value, or NotImplemented to fall through to the generic rules below
    for x, other, left in ((a, b, True), (b, a, False)):
        h = getattr(x, "concat_model", None)
        if h is not None:
            r = h(other, left)
            if r is not NotImplemented:
                return r
    if hasattr(a, "fold_concat") and isinstance(b, (tuple, list)):
        # a sequence known only through a fold of its elements (contract-side model, e.g. the running join of a
        # list of canvases): appending concrete items steps the fold
        return a.fold_concat(b)
    if isinstance(b, (tuple, list)) and not b:
        return a
    if isinstance(a, (tuple, list)) and not a:
        return b
    measure = getattr(a, "measure", None) or getattr(b, "measure", None)
    a, b = to_sseq(a, measure=measure), to_sseq(b, measure=measure)
    na = a.length
    lazy = getattr(a, "lazy", False) or getattr(b, "lazy", False)

    def getter(i):
        if isinstance(i, int) and isinstance(na, int):
            return a.get(i) if i < na else b.get(i - na)
        c = i < na
        if c is True:
            return a.get(i)
        if c is False:
            return b.get(i - na)
        if lazy and cur().capture is None:
            # a part is evaluated on demand and may raise out of range: split the path instead of
            # evaluating both parts
            return a.get(i) if cur().branch(c) else b.get(i - na)
        return ite(c, a.get(i), b.get(i - na))

    psum = None
    if a.psum and b.psum:

        def psum(k):
            return ite(k <= na, a.psum(imin(k, na)), a.psum(na) + b.psum(imax(k - na, 0)))

    r = SSeq(na + b.length, getter, a.shape or b.shape, psum, "cat")
    r.lazy = lazy
    r.measure = measure
    for c in set(a.cpsum) & set(b.cpsum):

        def cps(k, fa=a.cpsum[c], fb=b.cpsum[c]):
            return ite(k <= na, fa(imin(k, na)), fa(na) + fb(imax(k - na, 0)))

        r.cpsum[c] = cps
    if a.expand is not None and b.expand is not None and 1 in r.cpsum:
        la = a.cpsum[1](na)
        r.expand = lambda p: ite(p < la, a.expand(p), b.expand(p - la))
    return r


def seq_slice1(s, lo, hi):
    """s[lo:hi] for normalised 0 <= lo, hi <= len (step 1); empty when hi <= lo."""
    if isinstance(s, (tuple, list)) and isinstance(lo, int) and isinstance(hi, int):
        return tuple(s[lo:hi])
    h = getattr(s, "slice_model", None)
    if h is not None:
        # a structured sequence value (see seq_concat): `slice_model(lo, hi)` -> the slice, or NotImplemented
        r = h(lo, hi)
        if r is not NotImplemented:
            return r
    s = to_sseq(s)
    n = imax(hi - lo, 0)
    psum = None
    if s.psum:

        def psum(k):
            return s.psum(lo + k) - s.psum(lo)

    r = SSeq(n, lambda i: s.get(lo + i), s.shape, psum, "slice")
    if getattr(s, "measure", None) is not None:
        r.measure = s.measure  # (the slice of a list that carries sum-of-measure(element) carries it too: see seq_concat)
    for c, f in s.cpsum.items():
        r.cpsum[c] = lambda k, f=f: f(lo + k) - f(lo)
    if s.expand is not None and 1 in s.cpsum:
        r.expand = lambda p: s.expand(s.cpsum[1](lo) + p)
    if isinstance(s.length, int):
        r.max_len = s.length  # a concrete bound on the symbolic length (used to unfold definitions eagerly)
    return r


def seq_update(s, k, v):
    if isinstance(s, (tuple, list)) and isinstance(k, int):
        t = list(s)
        t[k] = v
        return tuple(t)
    s = to_sseq(s)
    old = s

    def getter(i):
        if isinstance(i, int) and isinstance(k, int):
            return v if i == k else old.get(i)
        c = V._cmp("==", i, k)
        if c is True:
            return v
        if c is False:
            return old.get(i)
        return ite(c, v, old.get(i))

    psum = None
    if old.psum and _summable(v):

        def psum(j):
            nv = v if V.is_num(v) else mk_int(_num0(v))
            ov = old.get(k)
            ov = ov if V.is_num(ov) else mk_int(_num0(ov))
            return ite(j <= k, old.psum(j), old.psum(j) + nv - ov)

    r = SSeq(s.length, getter, s.shape, psum, "upd")
    if isinstance(v, (tuple, V.SCases)):
        for c, f in old.cpsum.items():
            if elt_comp(v, c) is not None:
                r.cpsum[c] = lambda j, f=f, c=c: ite(j <= k, f(j), f(j) + elt_comp(v, c) - elt_comp(old.get(k), c))
        if old.expand is not None and 1 in r.cpsum and len(v) == 2:
            def ex(p):
                lo = old.cpsum[1](k)
                return ite(p < lo, old.expand(p), ite(p < lo + v[1], v[0], old.expand(p - v[1] + old.get(k)[1])))

            r.expand = ex
    return r


def seq_append(s, v):
    if isinstance(s, (tuple, list)):
        return tuple(s) + (v,)
    return seq_concat(s, (v,))


def seq_insert(s, k, v):
    """insert at normalised 0 <= k <= len."""
    if isinstance(s, (tuple, list)) and isinstance(k, int):
        t = list(s)
        t.insert(k, v)
        return tuple(t)
    s = to_sseq(s)
    return seq_concat(seq_concat(seq_slice1(s, 0, k), (v,)), seq_slice1(s, k, s.length))


def seq_delete1(s, lo, hi):
    """remove [lo,hi), normalised, lo <= hi."""
    if isinstance(s, (tuple, list)) and isinstance(lo, int) and isinstance(hi, int):
        t = list(s)
        del t[lo:hi]
        return tuple(t)
    s = to_sseq(s)
    return seq_concat(seq_slice1(s, 0, lo), seq_slice1(s, hi, s.length))


class LRef(Sym):
    """A mutable list object (reference semantics); content is a tuple (concrete length) or an SSeq."""

    serial_counter = 0  # creation order of list objects (to tell a freshly built list from an existing one)

    def __init__(self, seq=()):
        self.seq = tuple(seq) if isinstance(seq, list) else seq
        LRef.serial_counter += 1
        self.serial = LRef.serial_counter

    def __repr__(self):
        return f"LRef({self.seq!r})"

    def snapshot(self):
        return LRef(self.seq)

    __hash__ = object.__hash__

    def __eq__(self, o):
        return self is o


class _MovedSeq(SSeq):
    """Content of a list object after it was stored (by value) into a nested list: any further use of the
    old reference would need alias tracking, which the by-value row model does not have -> Unsupported."""

    def __init__(self):
        self.getter = None
        self.shape = None
        self.psum = None
        self.name = "moved"

    @property
    def length(self):
        raise Unsupported("use of a list after it was stored as a row of a nested list (row aliasing is not modelled)")

    def get(self, i):
        raise Unsupported("use of a list after it was stored as a row of a nested list (row aliasing is not modelled)")


def is_nested(s):
    """Is `s` the content of a list whose elements are rows held by value (shape ListOf(ListOf(..)))?"""
    from . import shapes as S

    return isinstance(s, SSeq) and isinstance(s.shape, S.ListOf)


def row_value(v):
    """The value stored when `v` becomes a row of a nested list: the content of a list object (which is
    then marked as moved: the model keeps rows by value, see fresh_seq), or an immutable sequence as is."""
    if isinstance(v, RowRef):
        raise Unsupported("storing a row of a nested list into another slot (row aliasing is not modelled)")
    if isinstance(v, RowItem):
        # `for row in a: b.append(row)`: CPython stores the SAME list object in b.  The by-value model stores its
        # content; that is faithful as long as neither list has a row changed in place afterwards, so both lists are
        # marked and any later in-place change of one of their rows (RowRef.seq setter) is rejected as Unsupported.
        if isinstance(v.parent, LRef):
            v.parent.rows_shared = True
        v.shared = True
        return v.seq
    if isinstance(v, LRef):
        content = v.seq
        v.seq = _MovedSeq()
        return content
    return v


class RowRef(LRef):
    """`grid[i]` for a nested list `grid`: a view of slot i of the parent list. Reading `.seq` gives the row
    stored there, assigning `.seq` (which is all the list-mutation models do) stores a new row value in that
    slot of the parent. Faithful to CPython as long as (a) no other slot holds the same list object (rows are
    created fresh and moved, never shared — the by-value model cannot express sharing, and storing a RowRef
    anywhere is rejected) and (b) the parent is not changed otherwise while the view is alive (checked: the
    view goes stale -> Unsupported)."""

    def __init__(self, parent: LRef, index):
        self.parent = parent
        self.index = index
        self._stamp = parent.seq
        self.serial = 0

    def _check(self):
        if self.parent.seq is not self._stamp:
            raise Unsupported("row view used after the enclosing list changed")

    @property
    def seq(self):
        self._check()
        return seq_get(self._stamp, self.index)

    @seq.setter
    def seq(self, new):
        self._check()
        if getattr(self.parent, "rows_shared", False):
            raise Unsupported("a row of a list that shares row objects with another list is changed in place (row aliasing is not modelled)")
        self.parent.seq = seq_update(self._stamp, self.index, tuple(new) if isinstance(new, list) else new)
        self._stamp = self.parent.seq

    def snapshot(self):
        return LRef(self.seq)

    def __repr__(self):
        return f"RowRef({self.parent!r}[{self.index!r}])"


class RowItem(LRef):
    """A row reached by ITERATING over a nested list (`for row in grid[a:b]`): CPython hands out the list object
    stored in the slot.  The by-value model presents it as a list with that content that must not be changed:
    any assignment to `.seq` (which is all the list-mutation models and `row_value` do) is rejected, because a
    change would have to show in the enclosing list (row aliasing is not modelled).  Reading, slicing,
    concatenating (`row + [...]` builds a new list, as in CPython) are as for any list.
    Cross-check against CPython: spec/xcheck_cases.py x_generator (iterates over rows of a nested list)."""

    def __init__(self, content, parent=None):
        self._content = content
        self.parent = parent  # the list iterated over (marked when this row is stored into another list)
        self.shared = False
        self.serial = 0

    @property
    def seq(self):
        return self._content

    @seq.setter
    def seq(self, new):
        raise Unsupported("a row reached by iterating over a nested list is changed / stored elsewhere (row aliasing is not modelled)")

    def snapshot(self):
        return LRef(self._content)

    def __repr__(self):
        return "RowItem(...)"


class YieldedRef(LRef):
    """A list object after a generator run to exhaustion has YIELDED it (interp._yield): CPython hands the consumer
    the very list object, so a later in-place change by the generator would show in the row already yielded.  The
    model yields the content by value and keeps the list readable -- it may be read, sliced, concatenated and yielded
    again (SolidCanvas.content yields one `line` for every row) -- but any in-place change afterwards is rejected
    (every list-mutation model assigns `.seq`), which is exactly the condition under which by-value and by-reference
    agree.  Cross-check against CPython: spec/xcheck_cases.py x_generator_same_list."""

    @property
    def seq(self):
        return self._content

    @seq.setter
    def seq(self, new):
        raise Unsupported("a list is changed in place after it was yielded (the yielded row would change with it: aliasing is not modelled)")

    def snapshot(self):
        return LRef(self._content)

    def __repr__(self):
        return f"YieldedRef({self._content!r})"


def yielded_value(v):
    """The value a generator run to exhaustion yields for `v`: a plain list object is yielded by value and frozen
    (YieldedRef); rows of nested lists as in `row_value`."""
    if type(v) is LRef:
        content = v.__dict__.pop("seq")
        v.__class__ = YieldedRef
        v._content = content
        return content
    if isinstance(v, YieldedRef):
        return v._content
    if isinstance(v, LRef):
        return row_value(v)
    return v


class DRef(Sym):
    """A mutable dict with concrete keys (reference semantics)."""

    def __init__(self, d=None):
        self.d = dict(d or {})

    def snapshot(self):
        return DRef({k: (v.snapshot() if isinstance(v, (LRef, DRef, SObj)) else v) for k, v in self.d.items()})

    __hash__ = object.__hash__

    def __eq__(self, o):
        return self is o


class SObj(Sym):
    """An object with symbolic fields."""

    def __init__(self, cls, fields, base_list=None):
        self.cls = cls
        self.fields = dict(fields)
        self.base_list = base_list
        self.shape = None

    def snapshot(self):
        o = SObj(self.cls, {k: (v.snapshot() if isinstance(v, (LRef, DRef, ModelObj, SObj)) else v) for k, v in self.fields.items()}, self.base_list)
        o.shape = self.shape
        o.__dict__["_trace"] = list(self.__dict__.get("_trace", []))
        return o

    __hash__ = object.__hash__

    def __eq__(self, o):
        return self is o

    @property
    def trace(self):
        """Ghost call trace: events (name, *args) logged by contracts with `log_event` / `effects`."""
        return self.__dict__.setdefault("_trace", [])

    def __getattr__(self, name):
        # contract-side convenience: s.fieldname
        f = self.__dict__.get("fields")
        if f is not None and name in f:
            return f[name]
        raise AttributeError(name)

    def __repr__(self):
        return f"SObj<{getattr(self.cls, '__name__', self.cls)}>"


class View:
    """Attribute view over a dict (contract-side access to arguments / locals)."""

    def __init__(_self, d, **extra):  # noqa: N805
        object.__setattr__(_self, "_d", dict(d))
        _self._d.update(extra)

    def __getattr__(self, name):
        try:
            return self._d[name]
        except KeyError:
            raise AttributeError(name) from None

    def __contains__(self, name):
        return name in self._d

    def __repr__(self):
        return f"View({self._d!r})"


class ModelObj(Sym):
    """Base of abstract-data-type models (heaps, maps, counters, selectors ...): mutable, reference
    semantics; the interpreter dispatches truthiness, len, subscripts, iteration and method calls here."""

    def py_truth(self, st):
        return True

    def py_len(self, st):
        raise Unsupported(f"len of {type(self).__name__}")

    def py_getitem(self, ip, st, idx):
        raise Unsupported(f"subscript of {type(self).__name__}")

    def py_setitem(self, ip, st, idx, v):
        raise Unsupported(f"subscript store on {type(self).__name__}")

    def py_delitem(self, ip, st, idx):
        raise Unsupported(f"del subscript on {type(self).__name__}")

    def py_contains(self, ip, st, x):
        raise Unsupported(f"'in' on {type(self).__name__}")

    def py_call(self, ip, st, name, args, kwargs):
        raise Unsupported(f"method {name} of {type(self).__name__}")

    def py_iter(self, ip, st):
        raise Unsupported(f"iteration over {type(self).__name__}")

    def snapshot(self):
        import copy

        return copy.copy(self)

    __hash__ = object.__hash__

    def __eq__(self, o):
        return self is o


class GuardedSeq(ModelObj):
    """The iteration of a collection whose MEMBERSHIP is symbolic over a finite, concrete universe (a set of enum members
    or small ints with one truth value per candidate): `items` = [(guard, value)], the collection's elements are exactly
    the values whose guard holds (order unspecified, as for a CPython set).  A generator expression over it
    (`interp._comp`) yields a GuardedSeq of the element expression's values under the conjoined guards (`if` clauses
    strengthen the guard); consumers are order-independent folds only:
        all(g) = AND(guard -> truth(value)),  any(g) = OR(guard and truth(value)),  len / truth.
    The element expression is evaluated for every candidate, members or not: it must be pure and total (an exception
    while evaluating it is Unsupported).  A `for` statement over it is Unsupported.
    Cross-check against CPython: `xcheck_guarded` below (every subset of a small universe)."""

    def __init__(self, items):
        self.items = list(items)

    def snapshot(self):
        return GuardedSeq(self.items)

    def py_iter(self, ip, st):
        return self

    def py_truth(self, st):
        from .values import either

        return either(False, *[g for g, _v in self.items])

    def py_len(self, st):
        from .values import ite

        n = 0
        for g, _v in self.items:
            n = n + (ite(g, 1, 0) if not isinstance(g, bool) else int(g))
        return n

    @staticmethod
    def truth_formula(v):
        """bool(v) as a formula (never forks)."""
        from .values import SBool, SInt, Sym, Unsupported

        if isinstance(v, (bool, SBool)):
            return v
        if isinstance(v, SInt):
            return v != 0
        if isinstance(v, Sym):
            raise Unsupported(f"truth of {type(v).__name__} as an element of a guarded sequence")
        return bool(v)

    def fold_all(self):
        from .values import both, implies

        return both(True, *[implies(g, self.truth_formula(v)) for g, v in self.items])

    def fold_any(self):
        from .values import both, either

        return either(False, *[both(g, self.truth_formula(v)) for g, v in self.items])


def xcheck_guarded(universe=(0, 1, 2, 5, 9)):
    """CPython cross-check of GuardedSeq: for every subset S of a small universe and a few element expressions f,
    all(f(x) for x in S), any(..), len(S), bool(S) computed by CPython equal the model's folds with the guards set to
    `x in S`.  -> (label, ok, detail)"""
    import itertools

    fs = [lambda x: x & 1, lambda x: x > 1, lambda x: 0, lambda x: x]
    bad = []
    cnt = 0
    for r in range(len(universe) + 1):
        for sub in itertools.combinations(universe, r):
            S = set(sub)
            base = GuardedSeq([(x in S, x) for x in universe])
            if bool(base.py_truth(None)) != bool(S) or base.py_len(None) != len(S):
                bad.append(("len/truth", sub))
            for k, f in enumerate(fs):
                g = GuardedSeq([(gd, f(v)) for gd, v in base.items])
                cnt += 1
                if bool(g.fold_all()) != all(f(x) for x in S) or bool(g.fold_any()) != any(f(x) for x in S):
                    bad.append((k, sub))
    return "guarded-sequence-folds-agree-with-cpython", not bad, f"{cnt} (subset, expression) pairs; mismatches: {bad[:3]}"


class ObjDict(ModelObj):
    """`obj.__dict__` of a modelled object (SObj): a LIVE view of its instance attributes (the model's fields), as
    CPython's instance `__dict__` is.  Modelled (names are constant strings):
        d[name] (KeyError), d[name] = v, del d[name] (KeyError), name in d, len(d), bool(d), d.get(name[, default]),
        d.update(<another object's __dict__> | <dict with constant keys>), d.copy() / dict(d) (a constant-key dict).
    `update` stores the SAME values under the same names: a mutable value (dict, list, object) is afterwards shared
    by the two objects (reference semantics of the model objects), exactly as in CPython -- which is the point of
    modelling it: `new.__dict__.update(old.__dict__)` aliases every container attribute of `old`.
    Cross-checked against CPython by `xcheck_objdict`."""

    py_class = dict

    def __init__(self, obj):
        self.obj = obj

    def snapshot(self):
        return self

    def _name(self, k):
        if not isinstance(k, str) or isinstance(k, Sym):
            raise Unsupported(f"instance __dict__ with a non-constant attribute name {k!r}")
        return k

    def py_truth(self, st):
        return bool(self.obj.fields)

    def py_len(self, st):
        return len(self.obj.fields)

    def py_contains(self, ip, st, x):
        return self._name(x) in self.obj.fields

    def py_getitem(self, ip, st, k):
        k = self._name(k)
        if k not in self.obj.fields:
            from .engine import PyRaise, SExc

            raise PyRaise(SExc(KeyError, (k,), site="builtin"))
        return self.obj.fields[k]

    def py_setitem(self, ip, st, k, v):
        self.obj.fields[self._name(k)] = v

    def py_delitem(self, ip, st, k):
        k = self._name(k)
        if k not in self.obj.fields:
            from .engine import PyRaise, SExc

            raise PyRaise(SExc(KeyError, (k,), site="builtin"))
        del self.obj.fields[k]

    def py_iter(self, ip, st):
        return tuple(self.obj.fields)

    def py_call(self, ip, st, name, args, kwargs):
        f = self.obj.fields
        if name == "update" and len(args) <= 1:
            for a in args:
                a = st.force(a) if st is not None else a
                if isinstance(a, ObjDict):
                    src = dict(a.obj.fields)
                elif isinstance(a, DRef):
                    src = dict(a.d)
                elif isinstance(a, dict):
                    src = dict(a)
                else:
                    raise Unsupported(f"instance __dict__.update({type(a).__name__})")
                for k, v in src.items():
                    f[self._name(k)] = v  # the same value object: shared afterwards
            for k, v in kwargs.items():
                f[k] = v
            return None
        if name == "get" and 1 <= len(args) <= 2 and not kwargs:
            return f.get(self._name(args[0]), args[1] if len(args) > 1 else None)
        if name == "copy" and not args:
            return DRef(f)
        if name == "keys" and not args:
            return tuple(f)
        if name == "values" and not args:
            return tuple(f.values())
        if name == "items" and not args:
            return tuple(f.items())
        if name == "__contains__" and len(args) == 1:
            return self._name(args[0]) in f
        raise Unsupported(f"method {name} of an instance __dict__")


def xcheck_objdict():
    """Concrete cross-check of ObjDict against CPython: the same operation sequence on a real object's `__dict__` and
    on the model of an object with the same attributes; after every step the attribute names, the values and -- for
    mutable values -- WHICH objects are shared must agree.  Returns (ok, detail)."""
    import itertools

    class _R:
        pass

    bad = []
    n = 0
    ops = ("update-from-other", "update-const", "set", "del", "get", "in", "len", "getitem-missing", "copy")
    for seq in itertools.product(ops, repeat=2):
        ra, rb = _R(), _R()
        la, lb = [1], [2]
        ra.x, ra.shared = 1, la
        rb.x, rb.y, rb.shared = 5, 6, lb
        ma, mb = SObj(_R, dict(x=1, shared=la)), SObj(_R, dict(x=5, y=6, shared=lb))
        da, db = ObjDict(ma), ObjDict(mb)
        for op in seq:
            n += 1
            try:
                if op == "update-from-other":
                    ra.__dict__.update(rb.__dict__)
                    da.py_call(None, None, "update", [db], {})
                elif op == "update-const":
                    ra.__dict__.update({"z": 9, "x": 3})
                    da.py_call(None, None, "update", [DRef({"z": 9, "x": 3})], {})
                elif op == "set":
                    ra.__dict__["w"] = 4
                    da.py_setitem(None, None, "w", 4)
                elif op == "del":
                    outcome = []
                    for side in (lambda: ra.__dict__.__delitem__("x"), lambda: da.py_delitem(None, None, "x")):
                        try:
                            side()
                            outcome.append("ok")
                        except Exception as ex:  # noqa: BLE001
                            outcome.append(getattr(getattr(ex, "exc", None), "cls", type(ex)).__name__)
                    if outcome[0] != outcome[1]:
                        bad.append((seq, op, outcome))
                elif op == "get":
                    if ra.__dict__.get("y", 0) != da.py_call(None, None, "get", ["y", 0], {}):
                        bad.append((seq, op))
                elif op == "in":
                    if ("y" in ra.__dict__) != da.py_contains(None, None, "y"):
                        bad.append((seq, op))
                elif op == "len":
                    if len(ra.__dict__) != da.py_len(None) or bool(ra.__dict__) != da.py_truth(None):
                        bad.append((seq, op))
                elif op == "getitem-missing":
                    try:
                        ra.__dict__["nope"]
                        real = "value"
                    except KeyError:
                        real = "KeyError"
                    try:
                        da.py_getitem(None, None, "nope")
                        mod = "value"
                    except Exception as ex:  # noqa: BLE001
                        mod = getattr(getattr(ex, "exc", None), "cls", type(ex)).__name__
                    if real != mod:
                        bad.append((seq, op, real, mod))
                elif op == "copy":
                    c = da.py_call(None, None, "copy", [], {})
                    if dict(ra.__dict__) != c.d or c.d is ma.fields:
                        bad.append((seq, op))
            except Exception as ex:  # noqa: BLE001
                bad.append((seq, op, repr(ex)))
            if list(ra.__dict__) != list(ma.fields) or any(ra.__dict__[k] != ma.fields[k] for k in ma.fields):
                bad.append((seq, op, "contents differ"))
            # sharing: the list under `shared` is rb's list in CPython exactly when it is mb's list in the model
            if ("shared" in ra.__dict__) and ((ra.__dict__["shared"] is lb) != (ma.fields["shared"] is lb)):
                bad.append((seq, op, "sharing differs"))
    return (not bad, f"{n} instance-__dict__ operations compared with CPython (contents and sharing), mismatches: {bad[:3]}")
