"""Sequences, slices, ranges, objects."""
from __future__ import annotations

import z3

from . import values as V
from .values import SBool, SInt, SOpt, Sym, Unsupported, both, cur, either, imax, imin, ite, mk_bool, mk_int, neg


def zint(v):
    return V._z(v)


class SSlice(Sym):
    __slots__ = ("start", "stop", "step")

    def __init__(self, start, stop, step):
        self.start, self.stop, self.step = start, stop, step

    def __repr__(self):
        return f"SSlice({self.start!r},{self.stop!r},{self.step!r})"


def _sign_pos(step):
    """True/False: is step > 0 (forks once when symbolic; natively a plain comparison)."""
    if isinstance(step, int):
        return step > 0
    return bool(step > 0)


def slice_indices(slc, n):
    """CPython's PySlice_AdjustIndices (via slice.indices): dual use (SSlice or builtin slice)."""
    st = cur() if V._current else None
    step, start, stop = slc.step, slc.start, slc.stop
    if st is not None:
        step, start, stop = st.force(step), st.force(start), st.force(stop)
    if step is None:
        step = 1
    if st is not None:
        st.partial(V._cmp("!=", step, 0) if V.is_sym(step) else step != 0, ValueError, "slice step cannot be zero")
    elif step == 0:
        raise ValueError("slice step cannot be zero")
    negstep = not _sign_pos(step)
    lower = -1 if negstep else 0
    upper = n - 1 if negstep else n

    def clamp(x, default):
        if x is None:
            return default
        return ite(x < 0, imax(x + n, lower), imin(x, upper))

    start = clamp(start, upper if negstep else lower)
    stop = clamp(stop, lower if negstep else upper)
    return start, stop, step


def _sign_pos(step):
    """True/False: is step > 0 (forks once when symbolic; natively a plain comparison)."""
    if isinstance(step, int):
        return step > 0
    return bool(step > 0)


def range_len(start, stop, step):
    """len(range(start, stop, step)), step != 0 (dual use). Forks on the sign of a symbolic step."""
    if _sign_pos(step):
        return imax(0, (stop - start + step - 1) // step)
    return imax(0, (start - stop - step - 1) // (-step))


def in_range(x, start, stop, step):
    """x in range(start, stop, step) (dual use)."""
    if _sign_pos(step):
        return both(start <= x, x < stop, (x - start) % step == 0)
    return both(stop < x, x <= start, (start - x) % (-step) == 0)


class SRange(Sym):
    __slots__ = ("start", "stop", "step")

    def __init__(self, start, stop, step=1):
        self.start, self.stop, self.step = start, stop, step

    @property
    def length(self):
        return range_len(self.start, self.stop, self.step)

    def get(self, i):
        return self.start + i * self.step

    def contains(self, x):
        return in_range(x, self.start, self.stop, self.step)

    def __repr__(self):
        return f"SRange({self.start!r},{self.stop!r},{self.step!r})"


# ---------------------------------------------------------------------------------------------


class SSeq(Sym):
    """Immutable sequence of symbolic length. `getter(i)` gives the element for an in-range index."""

    def __init__(self, length, getter, shape=None, psum=None, name=None):
        self.length = length
        self.getter = getter
        self.shape = shape
        self.psum = psum  # k -> sum of the first k elements (int sequences only)
        self.name = name

    def get(self, i):
        return self.getter(i)

    def __repr__(self):
        return f"SSeq<{self.name}>(len={self.length!r})"

    def sum(self):
        if self.psum is None:
            raise Unsupported("sum() of a sequence without a prefix-sum model")
        return self.psum(self.length)


def _num0(v):
    """Integer value of an element for prefix sums: None counts as 0."""
    if v is None:
        return z3.IntVal(0)
    if isinstance(v, SOpt):
        inner = v.val
        return z3.If(v.isnone, z3.IntVal(0), zint(inner) if inner is not None else z3.IntVal(0))
    return zint(v)


def _summable(x):
    return x is None or V.is_num(x) or (isinstance(x, SOpt) and (x.val is None or V.is_num(x.val)))


def fresh_seq(st, n, elem_shape, hint):
    """A fresh sequence of length n: struct-of-arrays over the element shape."""
    from . import shapes as S

    base = st.fresh_name(hint)

    def mk(shape, path):
        if isinstance(shape, S._Int):
            f = z3.Function(f"{base}{path}", z3.IntSort(), z3.IntSort())
            lo, hi = shape.lo, shape.hi

            def g(i, f=f, lo=lo, hi=hi):
                e = f(zint(i))
                s = cur()
                if lo is not None:
                    s.assume(e >= lo)
                if hi is not None:
                    s.assume(e <= hi)
                return mk_int(e)

            return g
        if isinstance(shape, S._Bool):
            f = z3.Function(f"{base}{path}", z3.IntSort(), z3.BoolSort())
            return lambda i, f=f: mk_bool(f(zint(i)))
        if isinstance(shape, S.Atom):
            if len(shape.domain) == 1:
                return lambda i, d=shape.domain[0]: d
            f = z3.Function(f"{base}{path}", z3.IntSort(), z3.IntSort())

            def g(i, f=f, dom=shape.domain):
                e = f(zint(i))
                cur().assume(z3.Or(*[e == V.atom_code(d) for d in dom]))
                return V.SAtom(e, dom)

            return g
        if isinstance(shape, S.Opaque):
            f = z3.Function(f"{base}{path}", z3.IntSort(), S.opaque_sort(shape.kind))
            return lambda i, f=f, shape=shape: V.SOpaque(shape.kind, f(zint(i)), dict(shape.meta))
        if isinstance(shape, S.Opt):
            f = z3.Function(f"{base}{path}?", z3.IntSort(), z3.BoolSort())
            inner = mk(shape.inner, path + "v")
            return lambda i, f=f, inner=inner: SOpt(f(zint(i)), inner(i))
        if isinstance(shape, S.Tup):
            parts = [mk(s, f"{path}.{k}") for k, s in enumerate(shape.items)]
            return lambda i, parts=parts: tuple(p(i) for p in parts)
        if isinstance(shape, S.Const):
            return lambda i, v=shape.value: v
        raise Unsupported(f"sequence element shape {shape!r}")

    getter = mk(elem_shape, "")
    psum = None
    opt_int = isinstance(elem_shape, S.Opt) and isinstance(elem_shape.inner, S._Int)
    if isinstance(elem_shape, S._Int) or opt_int:
        # prefix-sum model field; for Optional[int] elements None counts as 0
        ps = z3.Function(f"{base}$psum", z3.IntSort(), z3.IntSort())
        inner_get = getter
        lo = elem_shape.inner.lo if opt_int else elem_shape.lo

        def getter(i, ps=ps, inner_get=inner_get):  # noqa: F811
            v = inner_get(i)
            zi = zint(i)
            cur().assume(ps(zi + 1) == ps(zi) + _num0(v))
            return v

        def psum(k, ps=ps, lo=lo):
            s = cur()
            s.assume(ps(z3.IntVal(0)) == 0)
            zk = zint(k)
            if lo is not None and lo >= 0:
                s.assume(ps(zk) >= 0)
            return mk_int(ps(zk))

    return SSeq(n, getter, elem_shape, psum, name=base)


def seq_len(s):
    if isinstance(s, (tuple, list)):
        return len(s)
    if type(s).__name__ == "SText":
        return s.length
    if isinstance(s, (SSeq, SRange)):
        return s.length
    if isinstance(s, LRef):
        return seq_len(s.seq)
    raise Unsupported(f"len of {type(s).__name__}")


def seq_get(s, i):
    """Element i, 0 <= i < len assumed."""
    if isinstance(s, LRef):
        s = s.seq
    if isinstance(s, (tuple, list)):
        if isinstance(i, int):
            return s[i]
        # symbolic index into a concrete sequence: fork over positions
        if not s:
            raise Unsupported("index into an empty sequence")
        st = cur()
        k = st.choose([V._cmp("==", i, j) for j in range(len(s))])
        return s[k]
    if isinstance(s, (SSeq, SRange)) or type(s).__name__ == "SText":
        return s.get(i)
    raise Unsupported(f"index of {type(s).__name__}")


def to_sseq(s, shape=None):
    """View a concrete tuple/list as an SSeq."""
    if isinstance(s, SSeq):
        return s
    if isinstance(s, LRef):
        return to_sseq(s.seq, shape)
    if isinstance(s, SRange):
        r = SSeq(s.length, s.get, None, None, "range")
        r.range = s
        return r
    items = tuple(s)

    def getter(i, items=items):
        if isinstance(i, int):
            return items[i]
        r = items[-1]
        for j in range(len(items) - 2, -1, -1):
            r = ite(V._cmp("==", i, j), items[j], r)
        return r

    psum = None
    if all(_summable(x) for x in items):

        def psum(k, items=items):
            acc = [0]
            for x in items:
                acc.append(acc[-1] + (x if V.is_num(x) else mk_int(_num0(x))))
            if isinstance(k, int):
                return acc[k]
            r = acc[-1]
            for j in range(len(items) - 1, -1, -1):
                r = ite(V._cmp("==", k, j), acc[j], r)
            return r

    if shape is None and items:
        from .shapes import shape_of

        try:
            shape = shape_of(items[0])
        except Unsupported:
            shape = None
    return SSeq(len(items), getter, shape, psum, "lit")


def seq_concat(a, b):
    if isinstance(a, (tuple, list)) and isinstance(b, (tuple, list)):
        return tuple(a) + tuple(b)
    if hasattr(a, "fold_concat") and isinstance(b, (tuple, list)):
        # a sequence known only through a fold of its elements (contract-side model, e.g. the running join of a
        # list of canvases): appending concrete items steps the fold
        return a.fold_concat(b)
    if isinstance(b, (tuple, list)) and not b:
        return a
    if isinstance(a, (tuple, list)) and not a:
        return b
    a, b = to_sseq(a), to_sseq(b)
    na = a.length
    lazy = getattr(a, "lazy", False) or getattr(b, "lazy", False)

    def getter(i):
        if isinstance(i, int) and isinstance(na, int):
            return a.get(i) if i < na else b.get(i - na)
        c = i < na
        if c is True:
            return a.get(i)
        if c is False:
            return b.get(i - na)
        if lazy and cur().capture is None:
            # a part is evaluated on demand and may raise out of range: split the path instead of
            # evaluating both parts
            return a.get(i) if cur().branch(c) else b.get(i - na)
        return ite(c, a.get(i), b.get(i - na))

    psum = None
    if a.psum and b.psum:

        def psum(k):
            return ite(k <= na, a.psum(imin(k, na)), a.psum(na) + b.psum(imax(k - na, 0)))

    r = SSeq(na + b.length, getter, a.shape or b.shape, psum, "cat")
    r.lazy = lazy
    return r


def seq_slice1(s, lo, hi):
    """s[lo:hi] for normalised 0 <= lo, hi <= len (step 1); empty when hi <= lo."""
    if isinstance(s, (tuple, list)) and isinstance(lo, int) and isinstance(hi, int):
        return tuple(s[lo:hi])
    s = to_sseq(s)
    n = imax(hi - lo, 0)
    psum = None
    if s.psum:

        def psum(k):
            return s.psum(lo + k) - s.psum(lo)

    r = SSeq(n, lambda i: s.get(lo + i), s.shape, psum, "slice")
    if isinstance(s.length, int):
        r.max_len = s.length  # a concrete bound on the symbolic length (used to unfold definitions eagerly)
    return r


def seq_update(s, k, v):
    if isinstance(s, (tuple, list)) and isinstance(k, int):
        t = list(s)
        t[k] = v
        return tuple(t)
    s = to_sseq(s)
    old = s

    def getter(i):
        if isinstance(i, int) and isinstance(k, int):
            return v if i == k else old.get(i)
        c = V._cmp("==", i, k)
        if c is True:
            return v
        if c is False:
            return old.get(i)
        return ite(c, v, old.get(i))

    psum = None
    if old.psum and _summable(v):

        def psum(j):
            nv = v if V.is_num(v) else mk_int(_num0(v))
            ov = old.get(k)
            ov = ov if V.is_num(ov) else mk_int(_num0(ov))
            return ite(j <= k, old.psum(j), old.psum(j) + nv - ov)

    return SSeq(s.length, getter, s.shape, psum, "upd")


def seq_append(s, v):
    if isinstance(s, (tuple, list)):
        return tuple(s) + (v,)
    return seq_concat(s, (v,))


def seq_insert(s, k, v):
    """insert at normalised 0 <= k <= len."""
    if isinstance(s, (tuple, list)) and isinstance(k, int):
        t = list(s)
        t.insert(k, v)
        return tuple(t)
    s = to_sseq(s)
    return seq_concat(seq_concat(seq_slice1(s, 0, k), (v,)), seq_slice1(s, k, s.length))


def seq_delete1(s, lo, hi):
    """remove [lo,hi), normalised, lo <= hi."""
    if isinstance(s, (tuple, list)) and isinstance(lo, int) and isinstance(hi, int):
        t = list(s)
        del t[lo:hi]
        return tuple(t)
    s = to_sseq(s)
    return seq_concat(seq_slice1(s, 0, lo), seq_slice1(s, hi, s.length))


class LRef(Sym):
    """A mutable list object (reference semantics); content is a tuple (concrete length) or an SSeq."""

    def __init__(self, seq=()):
        self.seq = tuple(seq) if isinstance(seq, list) else seq

    def __repr__(self):
        return f"LRef({self.seq!r})"

    def snapshot(self):
        return LRef(self.seq)

    __hash__ = object.__hash__

    def __eq__(self, o):
        return self is o


class DRef(Sym):
    """A mutable dict with concrete keys (reference semantics)."""

    def __init__(self, d=None):
        self.d = dict(d or {})

    def snapshot(self):
        return DRef({k: (v.snapshot() if isinstance(v, (LRef, DRef, SObj)) else v) for k, v in self.d.items()})

    __hash__ = object.__hash__

    def __eq__(self, o):
        return self is o


class SObj(Sym):
    """An object with symbolic fields."""

    def __init__(self, cls, fields, base_list=None):
        self.cls = cls
        self.fields = dict(fields)
        self.base_list = base_list
        self.shape = None

    def snapshot(self):
        o = SObj(self.cls, {k: (v.snapshot() if isinstance(v, (LRef, DRef, ModelObj, SObj)) else v) for k, v in self.fields.items()}, self.base_list)
        o.shape = self.shape
        o.__dict__["_trace"] = list(self.__dict__.get("_trace", []))
        return o

    __hash__ = object.__hash__

    def __eq__(self, o):
        return self is o

    @property
    def trace(self):
        """Ghost call trace: events (name, *args) logged by contracts with `log_event` / `effects`."""
        return self.__dict__.setdefault("_trace", [])

    def __getattr__(self, name):
        # contract-side convenience: s.fieldname
        f = self.__dict__.get("fields")
        if f is not None and name in f:
            return f[name]
        raise AttributeError(name)

    def __repr__(self):
        return f"SObj<{getattr(self.cls, '__name__', self.cls)}>"


class View:
    """Attribute view over a dict (contract-side access to arguments / locals)."""

    def __init__(_self, d, **extra):  # noqa: N805
        object.__setattr__(_self, "_d", dict(d))
        _self._d.update(extra)

    def __getattr__(self, name):
        try:
            return self._d[name]
        except KeyError:
            raise AttributeError(name) from None

    def __contains__(self, name):
        return name in self._d

    def __repr__(self):
        return f"View({self._d!r})"


class ModelObj(Sym):
    """Base of abstract-data-type models (heaps, maps, counters, selectors ...): mutable, reference
    semantics; the interpreter dispatches truthiness, len, subscripts, iteration and method calls here."""

    def py_truth(self, st):
        return True

    def py_len(self, st):
        raise Unsupported(f"len of {type(self).__name__}")

    def py_getitem(self, ip, st, idx):
        raise Unsupported(f"subscript of {type(self).__name__}")

    def py_setitem(self, ip, st, idx, v):
        raise Unsupported(f"subscript store on {type(self).__name__}")

    def py_delitem(self, ip, st, idx):
        raise Unsupported(f"del subscript on {type(self).__name__}")

    def py_contains(self, ip, st, x):
        raise Unsupported(f"'in' on {type(self).__name__}")

    def py_call(self, ip, st, name, args, kwargs):
        raise Unsupported(f"method {name} of {type(self).__name__}")

    def py_iter(self, ip, st):
        raise Unsupported(f"iteration over {type(self).__name__}")

    def snapshot(self):
        import copy

        return copy.copy(self)

    __hash__ = object.__hash__

    def __eq__(self, o):
        return self is o
