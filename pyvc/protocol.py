"""Protocol contracts for opaque objects (child widgets, callbacks ...): methods are uninterpreted
functions of (receiver, receiver state version, arguments), constrained by assumed postconditions.
Every call is appended to the ghost trace so that container contracts can speak about "which child
was called with what"."""
from __future__ import annotations

import z3

from . import shapes as S
from . import values as V
from .engine import PyRaise, SExc
from .seqs import SObj
from .values import SAtom, SBool, SInt, SOpaque, SOpt, Sym, Unsupported, atom_code, mk_bool, mk_int


class OpaqueCall:
    def __init__(self, recv, name, proto):
        self.recv, self.name, self.proto = recv, name, proto

    def __repr__(self):
        return f"OpaqueCall({self.recv!r}.{self.name})"


def force_lazy(st, v):
    """A lazily decoded value (an object with `py_force(st)`, e.g. a size tuple whose arity is symbolic) is
    decoded -- forking over its cases -- only when it is handed to an opaque callee."""
    f = getattr(v, "py_force", None)
    return f(st) if f is not None else v


def encode_arg(st, v):
    """Encode an argument value as a list of z3 terms (for uninterpreted-function application)."""
    v = force_lazy(st, v)
    if isinstance(v, (SOpt, V.SCases)):
        v = st.force(v)  # forks only when both cases are possible; canonical encoding either way
    if v is None:
        return [z3.IntVal(-7777)]
    if isinstance(v, bool):
        return [z3.BoolVal(v)]
    if isinstance(v, SBool):
        return [v.e]
    if isinstance(v, int):
        return [z3.IntVal(v)]
    if isinstance(v, SInt):
        return [v.e]
    if isinstance(v, SAtom):
        return [v.e]
    if isinstance(v, SOpaque):
        return [v.e]
    if type(v).__name__ == "FnVal":
        return [z3.IntVal(atom_code("fn:" + v.ref.key))]
    if type(v).__name__ == "SObj":
        return [z3.IntVal(atom_code("obj:" + getattr(v.cls, "__name__", "?")))]
    if getattr(v, "is_text", False):
        return [z3.Int(f"{v.name}$id"), V._z(v.offset), V._z(v.length)]
    if type(v).__name__ in ("LRef", "RowRef") and getattr(v.seq, "row_id", None) is not None:
        v = v.seq  # `grid[i]`: the row stored in slot i (rows are held by value)
    if getattr(v, "row_id", None) is not None:
        # a row of a fresh nested list (seqs.fresh_seq): identified by the list and the row's index
        name, idx = v.row_id
        return [z3.IntVal(atom_code("row:" + name)), *idx]
    if isinstance(v, tuple):
        out = [z3.IntVal(len(v))]
        for x in v:
            out.extend(encode_arg(st, x))
        return out
    if isinstance(v, (str, bytes)) or V.is_atomic_const(v):
        return [z3.IntVal(atom_code(v))]
    raise Unsupported(f"cannot encode protocol argument {v!r}")


def _zero(t):
    s = t.sort()
    if s == z3.IntSort():
        return z3.IntVal(0)
    if s == z3.BoolSort():
        return z3.BoolVal(False)
    return t


def dom_of(args):
    return [t.sort() for t in args]


def uf_shape_value(st, base, args, shape):
    """A value of `shape` determined by the z3 terms `args` (uninterpreted functions named after `base`)."""
    base = f"{base}/{'.'.join(str(t.sort())[0] for t in args)}"  # one function per signature

    def mk(shp, path, args, nested=False):
        dom = [t.sort() for t in args]
        if isinstance(shp, S._Int):
            e = z3.Function(f"{base}{path}", *dom, z3.IntSort())(*args)
            s_ = V.cur() if V._current else st
            if shp.lo is not None:
                s_.assume(e >= shp.lo)
            if shp.hi is not None:
                s_.assume(e <= shp.hi)
            return mk_int(e)
        if isinstance(shp, S._Bool):
            return mk_bool(z3.Function(f"{base}{path}", *dom, z3.BoolSort())(*args))
        if isinstance(shp, S.Atom):
            if len(shp.domain) == 1:
                return shp.domain[0]
            e = z3.Function(f"{base}{path}", *dom, z3.IntSort())(*args)
            (V.cur() if V._current else st).assume(z3.Or(*[e == atom_code(d) for d in shp.domain]))
            return SAtom(e, shp.domain)
        if isinstance(shp, S.Opt):
            isn = z3.Function(f"{base}{path}?", *dom, z3.BoolSort())(*args)
            return SOpt(isn, mk(shp.inner, path + "v", args))
        if isinstance(shp, S.Tup):
            return tuple(mk(s, f"{path}.{i}", args) for i, s in enumerate(shp.items))
        if isinstance(shp, S.Opaque):
            e = z3.Function(f"{base}{path}", *dom, S.opaque_sort(shp.kind))(*args)
            return SOpaque(shp.kind, e, dict(shp.meta))
        if isinstance(shp, S.Const):
            return shp.value
        if isinstance(shp, S.Obj):
            o = SObj(shp.cls, {k: mk(s, f"{path}.{k}", args) for k, s in shp.fields.items()}, base_list=shp.base_list)
            o.shape = shp
            return o
        if isinstance(shp, S.Union):
            alts = shp.cases()
            t = z3.Function(f"{base}{path}#tag", *dom, z3.IntSort())(*args)
            (V.cur() if V._current else st).assume(z3.And(t >= 0, t < len(alts)))
            return V.SCases([(t == k, mk(a, f"{path}|{k}", args)) for k, a in enumerate(alts)])
        if isinstance(shp, S.ListOf):
            from .seqs import LRef, SSeq

            n = z3.Function(f"{base}{path}#len", *dom, z3.IntSort())(*args)
            st.assume(n >= shp.min_len)
            if shp.max_len is not None:
                st.assume(n <= shp.max_len)
            # (an element that is itself a list is a ROW of a nested list: an immutable sequence value, held by value,
            #  exactly as seqs.fresh_seq models the rows of a fresh nested list -- see `nested` below)
            getter = lambda i, shp=shp, path=path, args=args: mk(shp.elem, path + "[]", list(args) + [V._z(i)], nested=True)  # noqa: E731
            psum = None
            if isinstance(shp.elem, S._Int):
                # prefix-sum model field of an integer list, as for fresh sequences (seqs.fresh_seq): the
                # defining equation is instantiated at every index that is read
                ps = z3.Function(f"{base}{path}#psum", *dom, z3.IntSort(), z3.IntSort())
                inner_get, lo = getter, shp.elem.lo

                def getter(i, ps=ps, inner_get=inner_get, args=args):  # noqa: F811
                    v = inner_get(i)
                    zi = V._z(i)
                    V.cur().assume(ps(*args, zi + 1) == ps(*args, zi) + V._z(v))
                    return v

                def psum(k, ps=ps, lo=lo, args=args):
                    s_ = V.cur()
                    s_.assume(ps(*args, z3.IntVal(0)) == 0)
                    if lo is not None and lo >= 0:
                        s_.assume(ps(*args, V._z(k)) >= 0)
                    return mk_int(ps(*args, V._z(k)))

            cfns = {}
            if isinstance(shp.elem, S.Tup):
                # component prefix sums for the plain-int components of a tuple element, as for fresh sequences
                # (seqs.fresh_seq): cps_c(i+1) = cps_c(i) + elt(i)[c], instantiated at every index that is read
                cfns = {c: z3.Function(f"{base}{path}#psum{c}", *dom_of(args), z3.IntSort(), z3.IntSort()) for c, sh in enumerate(shp.elem.items) if isinstance(sh, S._Int)}
                if cfns:
                    tup_get = getter

                    def getter(i, cfns=cfns, tup_get=tup_get, args=args):  # noqa: F811
                        v = tup_get(i)
                        zi = V._z(i)
                        for c, f in cfns.items():
                            V.cur().assume(f(*args, zi + 1) == f(*args, zi) + V._z(v[c]))
                        return v
            elif isinstance(shp.elem, S.Union):
                # variant records (layout segments (cols, offs) | (cols, offs, end) | (cols, offs, bytes)): component
                # prefix sums for the plain-int components EVERY alternative has at the same position -- the same model
                # field seqs.fresh_seq gives a fresh list of such elements (summand: the non-forking selection
                # seqs.elt_comp over the alternatives), defining equation instantiated at every index that is read
                from .seqs import elt_comp

                ualts = shp.elem.cases()
                ucomps = []
                if ualts and all(isinstance(a_, S.Tup) for a_ in ualts):
                    ucomps = [c for c in range(min(len(a_.items) for a_ in ualts)) if all(isinstance(a_.items[c], S._Int) for a_ in ualts)]
                cfns = {c: z3.Function(f"{base}{path}#psum{c}", *dom_of(args), z3.IntSort(), z3.IntSort()) for c in ucomps}
                if cfns:
                    var_get = getter

                    def getter(i, cfns=cfns, var_get=var_get, args=args):  # noqa: F811
                        v = var_get(i)
                        zi = V._z(i)
                        for c, f in cfns.items():
                            V.cur().assume(f(*args, zi + 1) == f(*args, zi) + V._z(elt_comp(v, c)))
                        return v

            seq = SSeq(mk_int(n), getter, shp.elem, psum, f"{base}{path}")
            for c, f in cfns.items():

                def cps(k, f=f, args=args):
                    s_ = V.cur()
                    done = s_.ghost.setdefault("cps_base_assumed", set())
                    base_eq = f(*args, z3.IntVal(0)) == 0
                    if base_eq.get_id() not in done or s_.capture is not None:  # (the terms stay referenced by the path condition)
                        if s_.capture is None:
                            done.add(base_eq.get_id())
                        s_.assume(base_eq)
                    return mk_int(f(*args, V._z(k)))

                seq.cpsum[c] = cps
            if nested:
                # a row of a nested list: a value (not a list object), identified by the function it is an application of
                # and its argument terms -- a deterministic function of a row is a function of this identity (encode_arg)
                seq.row_id = (f"{base}{path}", tuple(args))
                return seq
            return seq if shp.tuple_ else LRef(seq)
        raise Unsupported(f"uninterpreted result of shape {shp!r}")

    return mk(shape, "", list(args))


class PMethod:
    def __init__(self, result=None, mutates=False, ensures=None, raises_any=False, params=None, defaults=None, pure_of_version=True):
        self.result = result  # Shape
        self.mutates = mutates
        self.ensures = ensures  # (st, recv, a(dict), result) -> iterable of formulas
        self.raises_any = raises_any
        self.params = params or []
        self.defaults = defaults or {}
        self.pure_of_version = pure_of_version


class Protocol:
    kind = None
    methods: dict = {}
    attrs: dict = {}  # name -> Shape (read-only attributes, functions of receiver+version)
    has: dict = {}  # hasattr answers: name -> True/False/None(unknown => uninterpreted)

    def version(self, st, recv):
        return st.ghost.setdefault("ver", {}).get(V.zstr(recv.e), 0)

    def bump(self, st, recv):
        d = st.ghost.setdefault("ver", {})
        d[V.zstr(recv.e)] = st.counter + 1000
        st.counter += 1

    def uf_value(self, st, name, recv, argterms, shape, ver):
        """A value of `shape` that is a function of (recv, version, args)."""
        return uf_shape_value(st, f"{self.kind}.{name}", [recv.e, z3.IntVal(ver)] + list(argterms), shape)

    def call_quiet(self, st, recv, name, vals):
        """The value a call would return, without logging it in the ghost call trace or bumping versions."""
        m = self.methods[name]
        vals = {k: force_lazy(st, v) for k, v in {**m.defaults, **vals}.items()}
        vals = {k: (st.force(v) if isinstance(v, V.SCases) else v) for k, v in vals.items()}
        terms = []
        for p in m.params:
            terms.extend(encode_arg(st, vals[p]))
        r = self.uf_value(st, name, recv, terms, m.result, self.version(st, recv))
        if m.ensures is not None and not getattr(m, "ensures_on_call_only", False):
            for f in m.ensures(st, recv, vals, r) or ():
                st.assume(f)
        st.ghost.setdefault("uf_calls", []).append((V.zstr(recv.e), name, dict(vals), r))
        return r

    def getattr(self, ip, st, obj, name):
        if name in self.methods:
            if self.has.get(name) == "uf" and not st.branch(self.hasattr(ip, st, obj, name)):
                raise PyRaise(SExc(AttributeError, (f"opaque {self.kind} has no attribute {name}",), site="protocol"))
            return OpaqueCall(obj, name, self)
        if name in self.attrs:
            return self.uf_value(st, "." + name, obj, [], self.attrs[name], self.version(st, obj))
        h = self.has.get(name, None)
        if h is False:
            raise PyRaise(SExc(AttributeError, (name,)))
        raise Unsupported(f"attribute {name} of opaque {self.kind}")

    def setattr(self, ip, st, obj, name, value):
        raise Unsupported(f"attribute store {name} on opaque {self.kind}")

    def hasattr(self, ip, st, obj, name):
        h = self.has.get(name)
        if h is None and name in self.methods:
            h = self.methods_optional.get(name) if hasattr(self, "methods_optional") else True
        if h is None or h == "uf":
            f = z3.Function(f"{self.kind}.has_{name}", obj.e.sort(), z3.BoolSort())
            r = mk_bool(f(obj.e))
            st.ghost.setdefault("uf_calls", []).append((V.zstr(obj.e), f"hasattr:{name}", {}, r))
            return r
        return h

    def call(self, ip, st, recv, name, args, kwargs):
        m = self.methods[name]
        if st.capture is not None and not m.mutates:
            # inside a quantifier body (a lazily evaluated comprehension element): a pure query, not logged
            vals = dict(m.defaults)
            for p, v in zip(m.params, args):
                vals[p] = v
            vals.update(kwargs)
            return self.call_quiet(st, recv, name, vals)
        vals = dict(m.defaults)
        for p, v in zip(m.params, args):
            vals[p] = v
        if len(args) > len(m.params):
            raise PyRaise(SExc(TypeError, (f"{name}: too many arguments",)))
        for k, v in kwargs.items():
            if k not in m.params:
                raise PyRaise(SExc(TypeError, (f"{name}: unexpected keyword {k}",)))
            vals[k] = v
        for p in m.params:
            if p not in vals:
                raise PyRaise(SExc(TypeError, (f"{name}: missing argument {p}",)))
        # a size argument of unknown arity is case-split here: (), (c,), (c, r)
        vals = {k: force_lazy(st, v) for k, v in vals.items()}
        vals = {k: (st.force(v) if isinstance(v, V.SCases) else v) for k, v in vals.items()}
        if m.raises_any:
            classes = m.raises_any if isinstance(m.raises_any, tuple) else ((m.raises_any,) if isinstance(m.raises_any, type) else (Exception,))
            k = st.fork(len(classes) + 1)
            if k > 0:
                st.event("call", recv, name, dict(vals), "raised")
                self.bump(st, recv)
                raise PyRaise(SExc(classes[k - 1], ("<opaque callee raised>",), site=f"opaque {self.kind}.{name}"))
        terms = []
        for p in m.params:
            terms.extend(encode_arg(st, vals[p]))
        ver = self.version(st, recv)
        result = self.uf_value(st, name, recv, terms, m.result, ver) if m.result is not None else None
        if m.mutates:
            self.bump(st, recv)
        if m.ensures is not None:
            for f in m.ensures(st, recv, vals, result) or ():
                st.assume(f)
        st.event("call", recv, name, dict(vals), result)
        st.ghost.setdefault("uf_calls", []).append((V.zstr(recv.e), name, dict(vals), result))
        return result


def calls_on(st, recv=None, name=None):
    """Ghost-trace query: calls made on opaque receivers (optionally filtered)."""
    out = []
    for ev in st.trace:
        if ev[0] != "call":
            continue
        if recv is not None and str(ev[1].e) != str(recv.e):
            continue
        if name is not None and ev[2] != name:
            continue
        out.append(ev)
    return out
