"""Model of "does this regular expression match?" for ONE small family of patterns applied to a modelled str.

Family (everything else is `Unsupported`, an honest failure):

    [ ^ | \\A ]   ATOM [ QUANT ]   [ $ | \\Z ]

  ATOM   one character: a literal, `.`, a set `[...]` / `[^...]` of literals, ranges and the categories
         \\d \\s \\w \\D \\S \\W; a (capturing or not) group around the quantified atom is transparent
  QUANT  `*`, `+`, `?`, `{m}`, `{m,n}`, greedy or lazy (existence of a match does not depend on that);
         possessive quantifiers are not modelled
  flags  none but re.UNICODE / re.ASCII (re.IGNORECASE, re.MULTILINE, re.DOTALL, re.VERBOSE, re.LOCALE change the
         meaning of the above and are not modelled)
  use    Pattern.match(s), Pattern.fullmatch(s), Pattern.search(s) when the pattern starts with ^ or \\A;
         re.match / re.fullmatch / re.search(<constant pattern>, s); no pos / endpos

CPython facts encoded (module `re`, documentation of `$`, `\\Z`, `match`, `fullmatch`; cross-checked against CPython
by `xcheck()`, which every contract using the model lists in its `static_checks`):
  * `match` succeeds iff some j with  lo <= j <= hi,  j <= len(s),  s[0:j] all in the atom's set,  and the end
    assertion holds at j;  `fullmatch` additionally needs j == len(s);
  * `\\Z` holds at j iff j == len(s);  **`$` (no MULTILINE) holds at j iff j == len(s) or
    (j == len(s) - 1 and s[j] == "\\n")** -- `$` also matches just before a trailing newline;
  * with no end assertion the shortest candidate j = lo decides (the admissible j are prefix-closed);
  * `\\d` / `\\s` / `\\w` on a str pattern are Unicode categories unless re.ASCII: the set of code points is taken
    from CPython itself (every code point is asked once, cached per category and flag), not re-typed here.
The structure of the pattern is read from CPython's own parser (`re._parser.parse`), not from the pattern text.
"""
from __future__ import annotations

import functools
import re
import re._constants as _C
import re._parser as _P

from .engine import Unsupported
from .values import both, either

MAX_CODE = 0x110000
_FLAGS_OK = re.UNICODE | re.ASCII
_CATEGORY_TEXT = {
    _C.CATEGORY_DIGIT: r"\d", _C.CATEGORY_NOT_DIGIT: r"\D", _C.CATEGORY_SPACE: r"\s", _C.CATEGORY_NOT_SPACE: r"\S",
    _C.CATEGORY_WORD: r"\w", _C.CATEGORY_NOT_WORD: r"\W",
}


class RShape:
    """begin: pattern starts with ^ / \\A; intervals: sorted disjoint (lo, hi) code-point ranges of the atom;
    lo / hi: repeat bounds (hi None = unbounded); end: None | '$' | 'Z'."""

    def __init__(self, begin, intervals, lo, hi, end):
        self.begin, self.intervals, self.lo, self.hi, self.end = begin, intervals, lo, hi, end

    def __repr__(self):
        return f"RShape(begin={self.begin}, {len(self.intervals)} ranges, {{{self.lo},{self.hi}}}, end={self.end})"


def _normalise(ranges):
    out = []
    for lo, hi in sorted(ranges):
        lo, hi = max(lo, 0), min(hi, MAX_CODE - 1)
        if lo > hi:
            continue
        if out and lo <= out[-1][1] + 1:
            out[-1] = (out[-1][0], max(out[-1][1], hi))
        else:
            out.append((lo, hi))
    return out


def _complement(ranges):
    out, nxt = [], 0
    for lo, hi in _normalise(ranges):
        if lo > nxt:
            out.append((nxt, lo - 1))
        nxt = hi + 1
    if nxt < MAX_CODE:
        out.append((nxt, MAX_CODE - 1))
    return out


@functools.lru_cache(maxsize=None)
def _category_ranges(cat, ascii_only):
    """The code points of a category: CPython is asked about every single one (about 0.5 s, once per process)."""
    p = re.compile(_CATEGORY_TEXT[cat], re.ASCII if ascii_only else 0)
    out, start = [], None
    for c in range(MAX_CODE):
        if p.match(chr(c)) is not None:
            if start is None:
                start = c
        elif start is not None:
            out.append((start, c - 1))
            start = None
    if start is not None:
        out.append((start, MAX_CODE - 1))
    return tuple(out)


def _atom_ranges(op, av, ascii_only):
    if op is _C.LITERAL:
        return [(av, av)]
    if op is _C.NOT_LITERAL:
        return _complement([(av, av)])
    if op is _C.ANY:
        return _complement([(10, 10)])  # no DOTALL: every character but "\n"
    if op is _C.IN:
        items, negate = list(av), False
        if items and items[0][0] is _C.NEGATE:
            negate, items = True, items[1:]
        rs = []
        for iop, iav in items:
            if iop is _C.LITERAL:
                rs.append((iav, iav))
            elif iop is _C.RANGE:
                rs.append((iav[0], iav[1]))
            elif iop is _C.CATEGORY and iav in _CATEGORY_TEXT:
                rs.extend(_category_ranges(iav, ascii_only))
            else:
                raise Unsupported(f"regular expression set item {iop} {iav!r} is not modelled")
        return _complement(rs) if negate else _normalise(rs)
    raise Unsupported(f"regular expression item {op} is not modelled")


@functools.lru_cache(maxsize=None)
def _analyse(pattern, flags):
    if not isinstance(pattern, str):
        raise Unsupported("bytes regular expressions are not modelled")
    if flags & ~_FLAGS_OK:
        raise Unsupported(f"regular expression flags {re.RegexFlag(flags & ~_FLAGS_OK)!r} are not modelled")
    ascii_only = bool(flags & re.ASCII)
    items = list(_P.parse(pattern, flags & re.ASCII))
    begin, end = False, None
    if items and items[0][0] is _C.AT and items[0][1] in (_C.AT_BEGINNING, _C.AT_BEGINNING_STRING):
        begin, items = True, items[1:]
    if items and items[-1][0] is _C.AT and items[-1][1] in (_C.AT_END, _C.AT_END_STRING):
        end, items = ("$" if items[-1][1] is _C.AT_END else "Z"), items[:-1]
    if not items:
        return RShape(begin, (), 0, 0, end)  # only assertions: the empty repeat of nothing
    if len(items) != 1:
        raise Unsupported(f"regular expression {pattern!r}: only one (quantified) single-character item between the anchors is modelled")
    op, av = items[0]
    lo = hi = 1
    while True:
        if op is _C.SUBPATTERN and not av[1] and not av[2] and len(av[3]) == 1:
            op, av = av[3][0]  # a group (no inline flags) around the single item: transparent for "is there a match"
        elif op in (_C.MAX_REPEAT, _C.MIN_REPEAT) and (lo, hi) == (1, 1) and len(av[2]) == 1:
            lo, hi = av[0], (None if av[1] is _C.MAXREPEAT else av[1])
            op, av = av[2][0]
        else:
            break
    if lo > 64:
        raise Unsupported(f"regular expression {pattern!r}: repeat count above 64 is not modelled")
    return RShape(begin, tuple(_atom_ranges(op, av, ascii_only)), lo, hi, end)


def analyse(pat):
    """RShape of a compiled pattern (re.Pattern) of the family; Unsupported otherwise."""
    return _analyse(pat.pattern, pat.flags)


def in_class(shape, c):
    """The character with code point c (int or symbolic int) belongs to the atom's set."""
    if isinstance(c, int):
        return any(lo <= c <= hi for lo, hi in shape.intervals)  # the same disjunction, evaluated lazily
    return either(*[(c == lo) if lo == hi else both(lo <= c, c <= hi) for lo, hi in shape.intervals])


def match_exists(shape, method, n, at, all_below):
    """Truth value (bool, or symbolic Bool) of `pattern.<method>(s) is not None` for the str s of length n (int or
    symbolic int) with code points at(i); all_below(j, pred) must mean "pred(at(i)) for every 0 <= i < j" (a plain
    conjunction for an int j, a bounded quantifier for a symbolic j)."""
    if method == "search" and not shape.begin:
        raise Unsupported("Pattern.search with a pattern that does not start with ^ or \\A is not modelled")
    if method not in ("match", "fullmatch", "search"):
        raise Unsupported(f"Pattern.{method} is not modelled")
    lo, hi = shape.lo, shape.hi

    def member(c):
        return in_class(shape, c)

    def stops_at(j):
        """the repeat may consume exactly the first j characters"""
        return both(lo <= j, True if hi is None else j <= hi, j <= n, all_below(j, member))

    whole = stops_at(n)
    if method == "fullmatch" or shape.end == "Z":
        return whole
    if shape.end == "$":
        # `$`: at the very end, or just before a newline that is the last character
        if isinstance(n, int) and n < 1:
            return whole
        return either(whole, both(n >= 1, at(n - 1) == 10, stops_at(n - 1)))
    # no end assertion: the shortest admissible repeat decides
    if isinstance(n, int) and n < lo:
        return False
    return both(n >= lo, *[member(at(i)) for i in range(lo)])


XCHECK_PATTERNS = (
    r"[0-9a-fA-F]*$", r"[0-9a-fA-F]*\Z", r"[0-9a-fA-F]*", r"[0-9a-fA-F]+$", r"^[0-9a-f]+$", r"\A[0-9A-F]{3}$", r"[0-9a-f]{1,6}\Z",
    r"[\da-fA-F]*$", r"\d+$", r"\d+", r"(?a)\d+$", r"(?a)[\da-f]*\Z", r"[^g-zG-Z]*$", r"[^\W_]*$", r"\w*\Z", r"\s*$", r"\S+$", r".*$", r".*\Z",
    r".+$", r"x?$", r"\n*$", r"[\n]?$", r"([0-9a-f]*)$", r"(?:[0-9a-f])*$", r"[0-9a-f]*?$", r"[0-9a-f]{2,}$", r"[0-9a-f]{0,3}", r"^\d{3}", r"\D*$",
    r"[a-f\d]{3}$", r"$", r"^$", r"\A\Z", r"^", r"a$", r"[^\n]*$",
)
XCHECK_UNSUPPORTED = (
    r"(?i)[0-9a-f]*$", r"(?m)[0-9a-f]*$", r"(?s).*$", r"[0-9a-f]*\n?$", r"#[0-9a-f]*$", r"[0-9a-f]*+$", r"(?:[0-9a-f]{2})*$", r"[0-9a-f]*|x",
    r"[0-9a-f]*\b", r"(?x) [0-9a-f]* $",
)


def xcheck():
    """The model against CPython's `re` on concrete strings: every XCHECK_PATTERNS pattern x match / fullmatch /
    (search when anchored) x strings that include the empty string, strings ending in one or two newlines, a newline
    elsewhere, "\\r", blanks, signs, underscores and non-ASCII digits; and every XCHECK_UNSUPPORTED pattern is refused."""
    import itertools
    import random

    rnd = random.Random(1802)
    alphabet = "09afAFgGxz_+- \t\n\n\r\x0b\x85٣３² #."
    texts = ["", "\n", "\n\n", "ff\n", "ff\n\n", "f\nf", "\nff", "ff\r", "ff\r\n", "fff", "12345\n", "0_0", "+12", " ff", "ff ", "٣٣٣", "１２３", "abc", "ABC", "xyz", "a", "x", "xx", "x\n"]
    texts += ["".join(t) for k in (1, 2, 3) for t in itertools.product("0fgG\n\r _٣", repeat=k)]
    few = len(texts)
    texts += ["".join(rnd.choice(alphabet) for _ in range(rnd.randrange(0, 9))) for _ in range(600)]
    bad, n = [], 0
    for ptxt in XCHECK_PATTERNS:
        pat = re.compile(ptxt)
        shape = analyse(pat)
        # (sets of hundreds of ranges -- Unicode \w, \d -- are slow to evaluate here: fewer random strings for those)
        for sv in texts if len(shape.intervals) <= 16 else texts[: few + 60]:
            codes = [ord(ch) for ch in sv]

            def all_below(j, pred, codes=codes):
                return all(pred(codes[i]) for i in range(j))

            for method in ("match", "fullmatch", "search"):
                if method == "search" and not shape.begin:
                    continue
                n += 1
                want = getattr(pat, method)(sv) is not None
                got = bool(match_exists(shape, method, len(codes), lambda i, codes=codes: codes[i], all_below))
                if got != want:
                    bad.append((ptxt, method, sv, got, want))
    for ptxt in XCHECK_UNSUPPORTED:
        try:
            analyse(re.compile(ptxt))
        except Unsupported:
            continue
        bad.append((ptxt, "accepted although outside the modelled family"))
    return "regex-match-model-agrees-with-cpython", not bad, f"{len(XCHECK_PATTERNS)} patterns x {len(texts)} strings ({n} calls); mismatches: {bad[:3]}"
