"""Shapes: static descriptions of values, used to create fresh symbolic inputs and to havoc."""
from __future__ import annotations

import z3

from . import values as V
from .values import SAtom, SBool, SInt, SOpaque, SOpt, SReal, Unsupported, atom_code, atom_value


class Shape:
    def fresh(self, st, hint):
        raise NotImplementedError

    def cases(self):
        """Entry case split (for Union shapes): list of shapes."""
        return [self]


class _Int(Shape):
    def __init__(self, lo=None, hi=None):
        self.lo, self.hi = lo, hi

    def __call__(self, lo=None, hi=None):
        return _Int(lo, hi)

    def fresh(self, st, hint):
        v = st.fresh_int(hint)
        if self.lo is not None:
            st.assume(v.e >= self.lo)
        if self.hi is not None:
            st.assume(v.e <= self.hi)
        return v

    def __repr__(self):
        return "Int" if self.lo is None and self.hi is None else f"Int({self.lo},{self.hi})"


Int = _Int()
Nat = _Int(0)


class _Bool(Shape):
    def fresh(self, st, hint):
        return st.fresh_bool(hint)

    def __repr__(self):
        return "Bool"


Bool = _Bool()


class Atom(Shape):
    def __init__(self, *domain):
        self.domain = tuple(domain)

    def fresh(self, st, hint):
        if len(self.domain) == 1:
            return self.domain[0]
        v = st.fresh_int(hint)
        st.assume(z3.Or(*[v.e == atom_code(d) for d in self.domain]))
        return SAtom(v.e, self.domain)

    def __repr__(self):
        return f"Atom{self.domain!r}"


Enum = Atom


class Opt(Shape):
    def __init__(self, inner):
        self.inner = inner

    def fresh(self, st, hint):
        isn = z3.Bool(st.fresh_name(hint + "_isnone"))
        return SOpt(isn, self.inner.fresh(st, hint))

    def __repr__(self):
        return f"Opt({self.inner!r})"


class Tup(Shape):
    def __init__(self, *items):
        self.items = items

    def fresh(self, st, hint):
        return tuple(s.fresh(st, f"{hint}_{i}") for i, s in enumerate(self.items))

    def __repr__(self):
        return f"Tup{self.items!r}"


class Const(Shape):
    def __init__(self, value):
        self.value = value

    def fresh(self, st, hint):
        return self.value

    def __repr__(self):
        return f"Const({self.value!r})"


class Custom(Shape):
    """A value built by a function (st, hint) -> value (object graphs: dicts of lists ...)."""

    def __init__(self, fn, name="custom"):
        self.fn = fn
        self.name = name

    def fresh(self, st, hint):
        return self.fn(st, hint)

    def __repr__(self):
        return f"Custom({self.name})"


class Union(Shape):
    """Entry case split: the parameter has one of several shapes; one obligation family per case."""

    def __init__(self, *alts):
        self.alts = alts

    def cases(self):
        out = []
        for a in self.alts:
            out.extend(a.cases())
        return out

    def fresh(self, st, hint):
        alts = self.cases()
        i = st.fork(len(alts))
        return alts[i].fresh(st, hint)

    def __repr__(self):
        return f"Union{self.alts!r}"


_sorts: dict = {}


def opaque_sort(kind):
    if kind not in _sorts:
        _sorts[kind] = z3.DeclareSort(kind)
    return _sorts[kind]


class Opaque(Shape):
    def __init__(self, kind, **meta):
        self.kind = kind
        self.meta = meta

    def fresh(self, st, hint):
        return SOpaque(self.kind, z3.Const(st.fresh_name(hint), opaque_sort(self.kind)), dict(self.meta))

    def __repr__(self):
        return f"Opaque({self.kind})"


class Slice(Shape):
    """A slice object with optional int components."""

    def __init__(self, start=None, stop=None, step=None):
        self.parts = (start or Opt(Int), stop or Opt(Int), step or Opt(Int))

    def fresh(self, st, hint):
        from .seqs import SSlice

        return SSlice(*[p.fresh(st, f"{hint}_{n}") for p, n in zip(self.parts, ("start", "stop", "step"))])

    def __repr__(self):
        return "Slice"


class ListOf(Shape):
    """A list (mutable reference) of unknown length whose elements have shape `elem`."""

    def __init__(self, elem, min_len=0, max_len=None, tuple_=False, measure=None):
        self.elem = elem
        self.min_len = min_len
        self.max_len = max_len
        self.tuple_ = tuple_
        self.measure = measure  # element -> int: psum() of the list sums this (see seqs.fresh_seq)

    def fresh_seq(self, st, hint):
        from .seqs import fresh_seq

        n = st.fresh_int(hint + "_len")
        st.assume(n.e >= self.min_len)
        if self.max_len is not None:
            st.assume(n.e <= self.max_len)
        return fresh_seq(st, n, self.elem, hint, measure=self.measure)

    def fresh(self, st, hint):
        from .seqs import LRef

        s = self.fresh_seq(st, hint)
        return s if self.tuple_ else LRef(s)

    def __repr__(self):
        return f"ListOf({self.elem!r})"


def TupleOf(elem, **kw):
    return ListOf(elem, tuple_=True, **kw)


class Obj(Shape):
    """An object with symbolic fields (the `self` of a method under contract)."""

    def __init__(self, cls, fields: dict, base_list=None):
        self.cls = cls
        self.fields = fields
        self.base_list = base_list

    def fresh(self, st, hint):
        from .seqs import SObj

        o = SObj(self.cls, {k: s.fresh(st, f"{hint}.{k}") for k, s in self.fields.items()}, base_list=self.base_list)
        o.shape = self
        return o


def shape_of(v):
    """Shape of an existing value (used to havoc loop-modified variables)."""
    from .seqs import LRef, SSeq

    if isinstance(v, bool) or isinstance(v, SBool):
        return Bool
    if isinstance(v, (int, SInt)):
        return Int
    if isinstance(v, SAtom):
        return Atom(*v.domain)
    if isinstance(v, SOpt):
        return Opt(shape_of(v.val))
    if isinstance(v, tuple):
        return Tup(*[shape_of(x) for x in v])
    if isinstance(v, SOpaque):
        return Opaque(v.kind, **v.meta)
    if isinstance(v, LRef):
        s = v.seq
        if isinstance(s, SSeq):
            return ListOf(s.shape, measure=getattr(s, "measure", None))
        if s:
            return ListOf(shape_of(s[0]))
        raise Unsupported("cannot infer the element shape of an empty concrete list")
    if isinstance(v, SSeq):
        return ListOf(v.shape, tuple_=True)
    if v is None or isinstance(v, (str, bytes)):
        return Const(v)
    if hasattr(v, "py_shape"):
        return v.py_shape()  # a modelled value that knows its own shape (pyvc.fmap.SFMap)
    raise Unsupported(f"no shape for {v!r}")


# ---------------------------------------------------------------------------------------------
# model -> concrete python value


def _mint(model, e):
    r = model.eval(e, model_completion=True)
    if z3.is_int_value(r):
        return r.as_long()
    if z3.is_rational_value(r):
        return float(r.numerator_as_long()) / float(r.denominator_as_long())
    raise Unsupported(f"model value {r}")


def concretize(model, v, max_len=12):
    from .seqs import LRef, SObj, SSeq, SSlice

    if isinstance(v, SBool):
        return z3.is_true(model.eval(v.e, model_completion=True))
    if isinstance(v, (SInt, SReal)):
        return _mint(model, v.e)
    if isinstance(v, SAtom):
        c = atom_value(_mint(model, v.e))
        return c
    if isinstance(v, SOpt):
        if z3.is_true(model.eval(v.isnone, model_completion=True)):
            return None
        return concretize(model, v.val)
    if isinstance(v, V.SCases):
        # a variant value: the alternative whose guard the model makes true (guards are exclusive and exhaustive)
        for g, alt in v.cases:
            if z3.is_true(model.eval(g, model_completion=True)):
                return concretize(model, alt)
        return concretize(model, v.cases[-1][1])
    if isinstance(v, SOpaque):
        return f"<{v.kind}:{model.eval(v.e, model_completion=True)}>"
    if isinstance(v, tuple):
        return tuple(concretize(model, x) for x in v)
    if isinstance(v, list):
        return [concretize(model, x) for x in v]
    if isinstance(v, dict):
        return {k: concretize(model, x) for k, x in v.items()}
    from .text import SText, concretize_text

    if isinstance(v, SText):
        return concretize_text(model, v)
    if isinstance(v, SSlice):
        return slice(concretize(model, v.start), concretize(model, v.stop), concretize(model, v.step))
    if isinstance(v, LRef):
        return list(concretize(model, v.seq))
    if isinstance(v, SSeq):
        n = concretize(model, v.length) if not isinstance(v.length, int) else v.length
        mg = getattr(v, "model_get", None)
        if mg is not None:
            # a sequence whose getter forks over the element's variant (contracts/C12 `fresh_keys`): reading it through
            # `get` here would record path decisions (and assume the first variant) in the middle of the path that is
            # being reported; `model_get(model, i)` reads element i off the model without touching the state
            return tuple(mg(model, i) for i in range(min(n, max_len)))
        if n > max_len:
            return ("<long>", n, tuple(concretize(model, v.get(i)) for i in range(max_len)))
        return tuple(concretize(model, v.get(i)) for i in range(n))
    if isinstance(v, SObj):
        return {k: concretize(model, x) for k, x in v.fields.items()}
    if hasattr(v, "py_concretize"):
        return v.py_concretize(model)  # a modelled value (ModelObj) that knows how to print itself from a model
    return v
