"""Locating the real functions of /repo: ASTs re-read from the working tree on every run."""
from __future__ import annotations

import ast
import hashlib
import importlib
import os
import sys

REPO = os.environ.get("VERIF_REPO", "/repo")

_modules: dict = {}


class ModuleSrc:
    def __init__(self, relpath):
        self.relpath = relpath
        # "verif:<path>" names a module of the framework itself (self-test programs for the encoding,
        # spec/xcheck_cases.py) -- never code that is claimed as verified
        if relpath.startswith("verif:"):
            root = os.path.dirname(os.path.dirname(os.path.abspath(__file__)))
            self.path = os.path.join(root, relpath[len("verif:"):])
        else:
            self.path = os.path.join(REPO, relpath)
        with open(self.path, encoding="utf-8") as f:
            self.text = f.read()
        self.tree = ast.parse(self.text, filename=self.path)
        self.modname = relpath[:-3].replace("/", ".")
        if relpath.startswith("verif:"):
            self.modname = relpath[len("verif:"):-3].replace("/", ".")
        if self.modname.endswith(".__init__"):
            self.modname = self.modname[: -len(".__init__")]
        self._real = None

    @property
    def real(self):
        if self._real is None:
            if REPO not in sys.path:
                sys.path.insert(0, REPO)
            self._real = importlib.import_module(self.modname)
            got = os.path.realpath(getattr(self._real, "__file__", ""))
            if got != os.path.realpath(self.path):
                raise RuntimeError(f"module {self.modname} imported from {got}, expected {self.path}")
        return self._real

    def segment(self, node):
        return ast.get_source_segment(self.text, node) or ""


def module(relpath) -> ModuleSrc:
    if relpath not in _modules:
        _modules[relpath] = ModuleSrc(relpath)
    return _modules[relpath]


def module_of_real(modname) -> ModuleSrc | None:
    rel = modname.replace(".", "/") + ".py"
    if os.path.exists(os.path.join(REPO, rel)):
        return module(rel)
    rel = modname.replace(".", "/") + "/__init__.py"
    if os.path.exists(os.path.join(REPO, rel)):
        return module(rel)
    return None


def _class_body_defs(body):
    """Function definitions of a class body, descending into `if` blocks at class level."""
    for n in body:
        if isinstance(n, (ast.FunctionDef, ast.AsyncFunctionDef)):
            yield n
        elif isinstance(n, ast.If):
            yield from _class_body_defs(n.body)
            yield from _class_body_defs(n.orelse)


def _is_overload(fn):
    for d in fn.decorator_list:
        s = ast.unparse(d)
        if s.endswith("overload"):
            return True
    return False


class FnRef:
    """A function of the repository: module + AST node + qualified name."""

    def __init__(self, mod: ModuleSrc, node, qualname, cls_qual=None, role="function"):
        self.mod = mod
        self.node = node
        self.qualname = qualname
        self.cls_qual = cls_qual  # qualified name of the defining class, or None
        self.role = role  # function | getter | setter

    @property
    def key(self):
        suffix = {"setter": ".setter", "getter": "", "function": ""}[self.role]
        return f"{self.mod.relpath}:{self.qualname}{suffix}"

    def source_hash(self):
        return hashlib.sha256(self.mod.segment(self.node).encode()).hexdigest()[:16]

    def __repr__(self):
        return f"FnRef({self.key})"


def find_class(mod: ModuleSrc, cls_qual):
    body = mod.tree.body
    node = None
    for part in cls_qual.split("."):
        if part == "<locals>":
            continue  # `f.<locals>.C`: a class defined in the body of function f (CPython's __qualname__ spelling)
        node = next((n for n in body if isinstance(n, ast.ClassDef) and n.name == part), None)
        if node is None:
            # a function on the way to a local class (only followed when a `<locals>` part comes next)
            node = next((n for n in body if isinstance(n, ast.FunctionDef) and n.name == part and f"{part}.<locals>." in cls_qual), None)
        if node is None:
            return None
        body = node.body
    return node if isinstance(node, ast.ClassDef) else None


def class_member(mod: ModuleSrc, cls_qual, name, role="function") -> FnRef | None:
    """The definition of `name` in the body of class `cls_qual` (not inherited)."""
    cnode = find_class(mod, cls_qual)
    if cnode is None:
        return None
    found = None
    for fn in _class_body_defs(cnode.body):
        if fn.name != name or _is_overload(fn):
            continue
        decs = [ast.unparse(d) for d in fn.decorator_list]
        is_setter = any(d == f"{name}.setter" for d in decs)
        is_getter = any(d in ("property", "functools.cached_property") for d in decs)
        r = "setter" if is_setter else ("getter" if is_getter else "function")
        if r == role:
            found = fn
    if found is None:
        return None
    return FnRef(mod, found, f"{cls_qual}.{name}", cls_qual, role)


def class_has_property(mod: ModuleSrc, cls_qual, name):
    return class_member(mod, cls_qual, name, "getter") is not None


def class_property_assign(mod: ModuleSrc, cls_qual, name):
    """A property made by assignment in the class body, `name = property(fget[, fset[, fdel[, doc]]])` (also with
    the keywords fget= / fset=): returns (fget_node, fset_node) — each an ast.Name (a function defined in the same
    class body), an ast.Lambda, or None — or None when `name` is not defined that way.
    CPython semantics: `property(...)` captures the function *objects* at class-creation time, so the accessor is
    the one of the defining class, not re-dispatched through a subclass's override."""
    cnode = find_class(mod, cls_qual)
    if cnode is None:
        return None
    found = None
    for n in cnode.body:
        if isinstance(n, ast.Assign) and len(n.targets) == 1 and isinstance(n.targets[0], ast.Name) and n.targets[0].id == name:
            v = n.value
            if isinstance(v, ast.Call) and isinstance(v.func, ast.Name) and v.func.id == "property":
                parts = {"fget": None, "fset": None}
                for k, a in zip(("fget", "fset", "fdel", "doc"), v.args):
                    parts[k] = a
                for kw in v.keywords:
                    parts[kw.arg] = kw.value
                norm = []
                for k in ("fget", "fset"):
                    a = parts.get(k)
                    if isinstance(a, ast.Constant) and a.value is None:
                        a = None
                    if a is not None and not isinstance(a, (ast.Name, ast.Lambda)):
                        return None
                    norm.append(a)
                found = tuple(norm)
            else:
                found = None
    return found


def resolve(key: str) -> FnRef:
    """`path/to/file.py:Qual.name[.setter]` or nested `f.<inner>` -> FnRef."""
    rel, qual = key.rsplit(":", 1)
    mod = module(rel)
    role = "function"
    if qual.endswith(".setter"):
        qual, role = qual[: -len(".setter")], "setter"
    parts = qual.split(".")
    # try class member
    if len(parts) >= 2:
        cls_qual, name = ".".join(parts[:-1]), parts[-1]
        if find_class(mod, cls_qual) is not None:
            for r in ([role] if role == "setter" else ["function", "getter"]):
                ref = class_member(mod, cls_qual, name, r)
                if ref is not None:
                    return ref
            raise KeyError(key)
    # plain / nested function path; nested written as outer.<inner>
    body = mod.tree.body
    node = None
    for p in parts:
        p = p.strip("<>")
        cand = None
        for n in ast.walk(ast.Module(body=body, type_ignores=[])) if node is not None else body:
            if isinstance(n, (ast.FunctionDef, ast.ClassDef)) and n.name == p and n is not node:
                if isinstance(n, ast.FunctionDef) and _is_overload(n):
                    continue  # a `@typing.overload` stub (body `...`) is never the function that runs (as class_member)
                cand = n
                break
        if cand is None:
            raise KeyError(key)
        node = cand
        body = node.body
    return FnRef(mod, node, qual, None, "function")


def mro_lookup(cls, name, role="function", after=None):
    """Walk the real class's MRO; return (defining class, FnRef | None).

    FnRef is None when the defining class is not a repository class (e.g. builtin `list`).
    `after`: start after this class in the MRO (for super())."""
    mro = list(cls.__mro__)
    if after is not None:
        mro = mro[mro.index(after) + 1 :]
    for c in mro:
        if name in c.__dict__:
            m = module_of_real(c.__module__)
            if m is None:
                return c, None
            ast_name = name
            priv = f"_{c.__name__.lstrip('_')}__"
            if name.startswith(priv) and not name.endswith("__") and c.__name__.lstrip("_"):
                ast_name = name[len(priv) - 2 :]  # a mangled private name: the class body spells it `__x`
            ref = class_member(m, c.__qualname__, ast_name, role)
            if ref is None and role == "function":
                ref = class_member(m, c.__qualname__, ast_name, "getter")
            if ref is None:
                # defined by assignment in the class body (alias) or similar
                return c, None
            return c, ref
    return None, None


def real_class(mod: ModuleSrc, cls_qual):
    o = mod.real
    for p in cls_qual.split("."):
        o = getattr(o, p)
    return o


def loops_of(fn_node):
    """Loops of a function body in source order (not descending into nested defs)."""
    out = []

    def walk(stmts):
        for s in stmts:
            if isinstance(s, (ast.FunctionDef, ast.AsyncFunctionDef, ast.ClassDef)):
                continue
            if isinstance(s, (ast.For, ast.While)):
                out.append(s)
            for field in ("body", "orelse", "finalbody", "handlers"):
                sub = getattr(s, field, None)
                if sub:
                    if field == "handlers":
                        for h in sub:
                            walk(h.body)
                    else:
                        walk(sub)
            if isinstance(s, ast.With):
                pass
            if isinstance(s, ast.Match):
                for c in s.cases:
                    walk(c.body)

    walk(fn_node.body)
    return out
