"""Symbolic interpreter for the verified Python subset, executing the real ASTs of /repo."""
from __future__ import annotations

import ast
import builtins as _bi
import enum
import functools
import inspect
import types
import typing
import warnings

import z3

from . import seqs as Q
from . import shapes as S
from . import source as SRC
from . import values as V
from .engine import PathEnd, PyRaise, SExc, State
from .seqs import DRef, LRef, ModelObj, SObj, SRange, SSeq, SSlice, View
from .values import (
    SAtom,
    SBool,
    SInt,
    SOpaque,
    SOpt,
    SReal,
    Sym,
    Unsupported,
    both,
    either,
    imax,
    imin,
    is_num,
    ite,
    mk_bool,
    mk_int,
    neg,
)


class _Return(Exception):
    def __init__(self, value):
        self.value = value


class _Break(Exception):
    pass


class _Continue(Exception):
    pass


class StarArgs:
    """The whole positional argument list of a call `f(*seq)` where seq has symbolic length."""

    def __init__(self, seq):
        self.seq = seq


class _SymComp(Exception):
    def __init__(self, seq):
        self.seq = seq


class FnVal:
    """A repository function value (possibly a closure / bound method)."""

    def __init__(self, ref: SRC.FnRef, closure=None, bound=None, defcls=None):
        self.ref = ref
        self.closure = closure
        self.bound = bound
        self.defcls = defcls  # real class in whose body this was defined (for super())
        self.wrapped = None  # functools.wraps target

    def bind(self, obj):
        f = FnVal(self.ref, self.closure, obj, self.defcls)
        f.wrapped = self.wrapped
        return f

    def __repr__(self):
        return f"FnVal({self.ref.key}{' bound' if self.bound is not None else ''})"


class Method:
    """Builtin method bound to a model value (list.append on an LRef, slice.indices, ...)."""

    def __init__(self, recv, name):
        self.recv = recv
        self.name = name

    def __repr__(self):
        return f"Method({type(self.recv).__name__}.{self.name})"


class SuperProxy:
    def __init__(self, obj, after_cls):
        self.obj = obj
        self.after = after_cls


class Frame:
    def __init__(self, fn: FnVal | None, mod: SRC.ModuleSrc, parent=None):
        self.fn = fn
        self.mod = mod
        self.parent = parent
        self.locals: dict = {}
        self.self_obj = None

    def lookup(self, name):
        f = self
        while f is not None:
            if name in f.locals:
                return f.locals[name]
            f = f.parent
        ov = V.cur().ghost.get("globals") if V._current else None
        if ov and name in ov:
            return ov[name]
        cell = self._real_closure_cell(name)
        if cell is not None:
            return cell[0]
        g = self.mod.real.__dict__
        if name in g:
            return g[name]
        if hasattr(_bi, name):
            return getattr(_bi, name)
        raise PyRaise(SExc(NameError, (name,)))

    def _real_closure_cell(self, name):
        """A free variable of a method of a class that was created inside a function call (e.g. the mixin classes made
        by `delegate_to_widget_mixin(attribute_name)`): the enclosing call is long over, so the variable's value is
        what the REAL function object's closure cell holds (CPython: `fn.__closure__[fn.__code__.co_freevars.index(name)]`).
        Only for methods reached through a real class (`defcls`) whose qualified name has a `<locals>` part; returns a
        1-tuple (value,) or None.  Cross-check against CPython: static check `engine-rules-agree-with-cpython`, contracts/C19_gridflow.py."""
        f = self
        while f is not None and (f.fn is None or f.fn.defcls is None):
            f = f.parent
        if f is None or "<locals>" not in getattr(f.fn.defcls, "__qualname__", ""):
            return None
        raw = inspect.getattr_static(f.fn.defcls, f.fn.ref.node.name, None)
        if isinstance(raw, property):
            raw = raw.fset if f.fn.ref.role == "setter" else raw.fget
        raw = getattr(raw, "__func__", raw)
        # (WidgetMeta wraps render / rows with functools.wraps'd cache wrappers: the method whose AST runs is the wrapped one)
        while name not in getattr(getattr(raw, "__code__", None), "co_freevars", ()) and hasattr(raw, "__wrapped__"):
            raw = raw.__wrapped__
        code, cells = getattr(raw, "__code__", None), getattr(raw, "__closure__", None)
        if code is None or not cells or name not in code.co_freevars:
            return None
        try:
            return (cells[code.co_freevars.index(name)].cell_contents,)
        except ValueError:  # empty cell
            return None

    def assign(self, name, value, nonlocal_names=()):
        if name in getattr(self, "global_names", ()):
            # a name this function declared `global` (s_Global): the store goes to the modelled module state
            V.cur().ghost["globals"][name] = value
            return
        if name in nonlocal_names:
            f = self.parent
            while f is not None:
                if name in f.locals:
                    f.locals[name] = value
                    return
                f = f.parent
        self.locals[name] = value


def mangle(fr, name):
    """Private name mangling, as CPython's compiler does it: inside a class body `__x` (two leading underscores,
    not ending in two) denotes `_Class__x`, Class being the innermost enclosing class with leading underscores
    stripped.  The ASTs pyvc executes are unmangled, so attribute loads / stores / deletes apply it here."""
    if not (name.startswith("__") and not name.endswith("__")):
        return name
    f = fr
    while f is not None:
        cq = getattr(getattr(f.fn, "ref", None), "cls_qual", None) if f.fn is not None else None
        if cq:
            cls = cq.split(".")[-1].lstrip("_")
            return f"_{cls}{name}" if cls else name
        f = f.parent
    return name


LOG_NAMES = {"logger", "LOGGER", "log"}
PURE_REAL_OK = (str, bytes, int, float, bool, tuple, frozenset, type(None), enum.Enum)


def _all_concrete(xs):
    return all(not isinstance(x, Sym) and not isinstance(x, FnVal) for x in xs)


class LoopSpec:
    def __init__(self, invariant=None, decreases=None, modifies=(), shapes=None, fingerprint=None, unroll=None, counter=False):
        # counter=True (while loops): the invariant's view carries the ghost iteration counter `i_` = number of
        # completed iterations (0 at inv-init, an arbitrary k >= 0 at the loop head, k + 1 at inv-preserve), and the
        # state in which the loop was left -- its locals, `i_` (completed iterations) and `broke_` (left by `break`) --
        # is kept as a View in st.ghost["loop_end"][ordinal] for the postconditions (witnesses of "there is a k").
        self.counter = counter
        self.invariant = invariant
        self.decreases = decreases
        self.modifies = tuple(modifies)
        self.shapes = shapes or {}
        self.fingerprint = fingerprint
        self.unroll = unroll


def and_mask_formula(x, m):
    """x & m for a constant mask m >= 0 and EVERY integer x (negative too), in integer arithmetic: Python's &
    acts on the infinite two's-complement form, whose bit k is (x // 2^k) % 2 with floor division, so
    x & m = sum over the mask's bit runs [lo, hi) of ((x // 2^lo) % 2^(hi-lo)) * 2^lo.
    Dual use (symbolic or plain ints); cross-checked against CPython's & on plain ints by the static check
    `and-mask-formula-agrees-with-cpython` of contracts/C05_input.py."""
    total = 0
    k = 0
    while (1 << k) <= m:
        if m >> k & 1:
            lo = k
            while m >> k & 1:
                k += 1
            total = total + ((x // (1 << lo)) % (1 << (k - lo))) * (1 << lo)
        else:
            k += 1
    return total


class Interp:
    """One interpreter per verification task."""

    def __init__(self, task):
        self.task = task  # provides: contracts lookup, inline set, mode, protocol, loop specs
        self.max_unroll = 64
        self.call_depth = 0

    # ------------------------------------------------------------------ calls
    def call(self, st: State, f, args, kwargs=None, site=None):
        kwargs = kwargs or {}
        if isinstance(f, SOpt):
            f = st.force(f)
        if f is None:
            raise PyRaise(SExc(TypeError, ("'NoneType' object is not callable",), site=site))
        if isinstance(f, FnVal):
            return self.call_fnval(st, f, args, kwargs, site)
        if isinstance(f, Method):
            from .builtins_model import call_method

            return call_method(self, st, f.recv, f.name, args, kwargs)
        from .protocol import OpaqueCall

        if isinstance(f, OpaqueCall):
            return f.proto.call(self, st, f.recv, f.name, args, kwargs)
        if isinstance(f, SOpaque):
            return self.task.call_opaque(self, st, f, args, kwargs)
        if isinstance(f, type):
            r = self.task.construct(self, st, f, args, kwargs, site)
            if r is not NotImplemented:
                return r
        if isinstance(f, Sym):
            raise Unsupported(f"call of {f!r}")
        from .builtins_model import call_builtin

        return call_builtin(self, st, f, args, kwargs)

    def call_fnval(self, st, f: FnVal, args, kwargs, site=None):
        if f.bound is not None:
            args = [f.bound, *args]
        key = f.ref.key
        c = self.task.contract_for(key, f)
        if c is not None:
            return c.apply(self, st, f, args, kwargs, site)
        if not self.task.may_inline(key, f):
            raise Unsupported(f"call to {key}: no contract and not listed for inlining")
        return self.run_function(st, f, args, kwargs)

    def bind_params(self, st, f: FnVal, frame: Frame, args, kwargs):
        a = f.ref.node.args
        params = [p.arg for p in a.posonlyargs + a.args]
        args = list(args)
        kwargs = dict(kwargs)
        defaults = a.defaults
        ndef = len(defaults)
        for i, name in enumerate(params):
            if i < len(args):
                frame.locals[name] = args[i]
            elif name in kwargs:
                frame.locals[name] = kwargs.pop(name)
            else:
                di = i - (len(params) - ndef)
                if di < 0:
                    raise PyRaise(SExc(TypeError, (f"missing argument {name}",)))
                frame.locals[name] = self.eval(st, defaults[di], frame.parent or Frame(None, frame.mod))
        rest = args[len(params) :]
        if a.vararg:
            if not rest and a.vararg.arg in kwargs and getattr(f, "top_level", False):
                rest = kwargs.pop(a.vararg.arg)  # the task passes *args as one sequence value
                frame.locals[a.vararg.arg] = rest
            else:
                frame.locals[a.vararg.arg] = tuple(rest)
        elif rest:
            raise PyRaise(SExc(TypeError, ("too many positional arguments",)))
        for p, d in zip(a.kwonlyargs, a.kw_defaults):
            if p.arg in kwargs:
                frame.locals[p.arg] = kwargs.pop(p.arg)
            elif d is not None:
                frame.locals[p.arg] = self.eval(st, d, frame.parent or Frame(None, frame.mod))
            else:
                raise PyRaise(SExc(TypeError, (f"missing keyword argument {p.arg}",)))
        if a.kwarg:
            frame.locals[a.kwarg.arg] = DRef(kwargs)
        elif kwargs:
            raise PyRaise(SExc(TypeError, (f"unexpected keyword arguments {sorted(kwargs)}",)))

    def run_function(self, st, f: FnVal, args, kwargs):
        node = f.ref.node
        is_gen = any(isinstance(n, (ast.Yield, ast.YieldFrom)) for n in self._own_nodes(node))
        if is_gen and not (getattr(f, "top_level", False) and getattr(getattr(self.task, "c", None), "generator_as_list", False)):
            raise Unsupported(f"generator function {f.ref.key}")
        frame = Frame(f, f.ref.mod, parent=f.closure)
        self.bind_params(st, f, frame, args, kwargs)
        if is_gen:
            # A generator function as the function under contract (opt-in: `generator_as_list = True`): what is verified
            # is the generator RUN TO EXHAUSTION IN ONE GO -- `list(f(...))` -- i.e. no code of the consumer runs between two
            # yields (so nothing the body reads changes under it), and an exception the body raises at any point counts
            # as raised.  The values yielded so far are the ghost list `yielded_` (a local: loop invariants may speak
            # about it, loops that yield list it in `LoopSpec.modifies`); list values are yielded BY VALUE (their
            # content at the moment of the yield; the list object stays readable and may be yielded again, an in-place
            # change after the yield is Unsupported: seqs.YieldedRef).  The result is that list; `return` inside the body ends it.
            # Only statement-level `yield v` / `yield from iterable` are modelled (the value sent in is unused).
            # Cross-check against CPython: spec/xcheck_cases.py x_generator (through its list() wrapper).
            frame.locals["yielded_"] = LRef(())
        a = node.args
        if (a.posonlyargs or a.args) and f.defcls is not None:
            frame.self_obj = frame.locals.get((a.posonlyargs + a.args)[0].arg)
        self.call_depth += 1
        if self.call_depth > 40:
            raise Unsupported("call depth > 40")
        try:
            self.exec_block(st, node.body, frame)
        except _Return as r:
            return frame.locals["yielded_"] if is_gen else r.value
        finally:
            self.call_depth -= 1
            if getattr(f, "top_level", False):
                # ghost: the locals of the function under verification at its exit, so that a postcondition of the
                # form "there is a column c such that ..." can name its witness (read-only, contract side)
                st.ghost["exit_locals"] = dict(frame.locals)
        return frame.locals["yielded_"] if is_gen else None

    @staticmethod
    def _own_nodes(fn_node):
        todo = list(fn_node.body)
        while todo:
            n = todo.pop()
            yield n
            for c in ast.iter_child_nodes(n):
                if isinstance(c, (ast.FunctionDef, ast.AsyncFunctionDef, ast.Lambda, ast.ClassDef)):
                    continue
                todo.append(c)

    # ------------------------------------------------------------------ statements
    def exec_block(self, st, stmts, fr: Frame):
        for s in stmts:
            self.exec_stmt(st, s, fr)

    def exec_stmt(self, st, s, fr: Frame):
        m = getattr(self, "s_" + type(s).__name__, None)
        if m is None:
            raise Unsupported(f"statement {type(s).__name__} at {fr.mod.relpath}:{s.lineno}")
        try:
            return m(st, s, fr)
        except Unsupported as e:
            if "at " not in str(e):
                raise Unsupported(f"{e} at {fr.mod.relpath}:{s.lineno}") from None
            raise

    def s_Expr(self, st, s, fr):
        if isinstance(s.value, ast.Constant):
            return  # docstring
        if self._is_dropped_call(s.value):
            return
        if isinstance(s.value, (ast.Yield, ast.YieldFrom)):
            return self._yield(st, s.value, fr)
        self.eval(st, s.value, fr)

    def _yield(self, st, e, fr):
        """Statement-level `yield v` / `yield from it` in a generator run to exhaustion (see run_function)."""
        f = fr
        while f is not None and "yielded_" not in f.locals:
            f = f.parent
        if f is None or f.fn is None or f.fn.ref.node is not fr.fn.ref.node:
            raise Unsupported("yield outside the generator function under contract")
        out = f.locals["yielded_"]
        if isinstance(e, ast.Yield):
            v = st.force(self.eval(st, e.value, fr)) if e.value is not None else None
            out.seq = Q.seq_append(out.seq, Q.yielded_value(v))
            return
        it = self.iter_view(st, st.force(self.eval(st, e.value, fr)))
        out.seq = Q.seq_concat(out.seq, it.seq if isinstance(it, LRef) else it)

    def _is_dropped_call(self, e):
        """logger.* / warnings.warn calls: dropped (arguments not evaluated) — see DESIGN §2.1."""
        if not isinstance(e, ast.Call):
            return False
        f = e.func
        if isinstance(f, ast.Attribute):
            base = f.value
            if isinstance(base, ast.Name) and base.id in LOG_NAMES:
                return True
            if isinstance(base, ast.Attribute) and base.attr in LOG_NAMES:
                return True
            if isinstance(base, ast.Name) and base.id == "warnings" and f.attr == "warn":
                return True
        return False

    def s_Pass(self, st, s, fr):
        pass

    def s_Assign(self, st, s, fr):
        v = self._local_map(st, s.value, s.targets[0] if len(s.targets) == 1 else None, fr)
        if v is None:
            v = self.eval(st, s.value, fr)
        for t in s.targets:
            self.assign_target(st, t, v, fr)

    def s_AnnAssign(self, st, s, fr):
        if s.value is not None:
            v = self._local_map(st, s.value, s.target, fr)
            self.assign_target(st, s.target, self.eval(st, s.value, fr) if v is None else v, fr)

    def _local_map(self, st, value, target, fr):
        """`name = {}` / `name: dict[..] = {}` in the function under contract, for a name the contract lists in
        `local_maps = {name: MapOf(key shape, value shape)}`: the empty dict is modelled as a dict with SYMBOLIC keys
        (pyvc.fmap.SFMap) of that shape instead of the constant-key DRef -- a choice of representation only: both are
        models of the same empty dict, the SFMap one admits `d[i] = v` for a symbolic int `i` (keys / values that do
        not fit the declared shapes are Unsupported there)."""
        lm = getattr(getattr(self.task, "c", None), "local_maps", None)
        if not lm or not (isinstance(value, ast.Dict) and not value.keys and isinstance(target, ast.Name) and target.id in lm):
            return None
        if fr.fn is None or fr.fn.ref.key != self.task.ref.key:
            return None
        from .fmap import SFMap, empty_map

        shp = lm[target.id]
        return SFMap(empty_map(st, target.id, shp.keys, shp.val))

    def s_AugAssign(self, st, s, fr):
        t = s.target
        if isinstance(t, ast.Name):
            cur = self.eval(st, ast.Name(id=t.id, ctx=ast.Load()), fr)
            rhs = self.eval(st, s.value, fr)
            if isinstance(cur, LRef) and isinstance(s.op, ast.Add):
                from .builtins_model import call_method

                call_method(self, st, cur, "extend", [rhs], {})
                return
            self.assign_target(st, t, self.binop(st, s.op, cur, rhs), fr)
        elif isinstance(t, ast.Attribute):
            obj = self.eval(st, t.value, fr)
            cur = self.getattr(st, obj, mangle(fr, t.attr), fr)
            rhs = self.eval(st, s.value, fr)
            if isinstance(cur, LRef) and isinstance(s.op, ast.Add):
                # `obj.attr += iterable` on a list is list.__iadd__: the list object is extended IN PLACE (every alias
                # sees it) and then stored back -- not `obj.attr = obj.attr + iterable` (a new list).  As for a Name
                # target above; cross-checked against CPython by spec/xcheck_cases.py:x_iadd_alias.
                from .builtins_model import call_method

                call_method(self, st, cur, "extend", [rhs], {})
                self.setattr(st, obj, mangle(fr, t.attr), cur, fr)
                return
            self.setattr(st, obj, mangle(fr, t.attr), self.binop(st, s.op, cur, rhs), fr)
        elif isinstance(t, ast.Subscript):
            obj = self.eval(st, t.value, fr)
            idx = self.eval_index(st, t.slice, fr)
            cur = self.subscript(st, obj, idx)
            rhs = self.eval(st, s.value, fr)
            if type(cur) is LRef and isinstance(s.op, ast.Add):
                from .builtins_model import call_method

                call_method(self, st, cur, "extend", [rhs], {})  # in place, as above (x[i] already holds `cur`)
                return
            self.store_subscript(st, obj, idx, self.binop(st, s.op, cur, rhs))
        else:
            raise Unsupported("augmented assignment target")

    def assign_target(self, st, t, v, fr):
        if isinstance(t, ast.Name):
            fr.assign(t.id, v, getattr(fr, "nonlocals", ()))
        elif isinstance(t, (ast.Tuple, ast.List)):
            if any(isinstance(e, ast.Starred) for e in t.elts):
                raise Unsupported("starred assignment")
            v = st.force(v)
            n = len(t.elts)
            if isinstance(v, tuple):
                items = v
                if len(items) != n:
                    raise PyRaise(SExc(ValueError, ("unpack arity",)))
            elif isinstance(v, (SSeq, LRef)):
                ln = Q.seq_len(v)
                st.partial(V._cmp("==", ln, n) if V.is_sym(ln) else ln == n, ValueError, "unpack arity")
                items = [Q.seq_get(v, i) for i in range(n)]
            elif v is None:
                raise PyRaise(SExc(TypeError, ("cannot unpack non-iterable NoneType object",)))
            elif isinstance(v, SOpaque) and hasattr(__import__("pyvc.api", fromlist=["PROTOCOLS"]).PROTOCOLS.get(v.kind), "unpack"):
                # an opaque individual its protocol can take apart (`unpack(ip, st, obj, n)` -> n items, raising the
                # ValueError / TypeError CPython raises when it is not a sequence of exactly n items)
                items = __import__("pyvc.api", fromlist=["PROTOCOLS"]).PROTOCOLS[v.kind].unpack(self, st, v, n)
            else:
                raise Unsupported(f"unpack of {type(v).__name__}")
            for e, x in zip(t.elts, items):
                self.assign_target(st, e, x, fr)
        elif isinstance(t, ast.Attribute):
            obj = self.eval(st, t.value, fr)
            self.setattr(st, obj, mangle(fr, t.attr), v, fr)
        elif isinstance(t, ast.Subscript):
            obj = self.eval(st, t.value, fr)
            idx = self.eval_index(st, t.slice, fr)
            self.store_subscript(st, obj, idx, v)
        else:
            raise Unsupported(f"assignment target {type(t).__name__}")

    def s_Return(self, st, s, fr):
        raise _Return(self.eval(st, s.value, fr) if s.value is not None else None)

    def s_If(self, st, s, fr):
        t = self.truth(st, self.eval(st, s.test, fr))
        # narrowing: after `x is None` / `x is not None` on a local optional, x is the inner value / None
        c = s.test
        if isinstance(c, ast.Compare) and len(c.ops) == 1 and isinstance(c.left, ast.Name) and isinstance(c.comparators[0], ast.Constant) and c.comparators[0].value is None and isinstance(c.ops[0], (ast.Is, ast.IsNot)):
            name = c.left.id
            if name in fr.locals and isinstance(fr.locals[name], SOpt):
                is_none_branch = t if isinstance(c.ops[0], ast.Is) else not t
                fr.locals[name] = None if is_none_branch else st.force(fr.locals[name])
        if t:
            self.exec_block(st, s.body, fr)
        else:
            self.exec_block(st, s.orelse, fr)

    def s_Assert(self, st, s, fr):
        if not self.truth(st, self.eval(st, s.test, fr)):
            raise PyRaise(SExc(AssertionError, (), site=f"{fr.mod.relpath}:{s.lineno}"))

    def s_Raise(self, st, s, fr):
        site = f"{fr.mod.relpath}:{s.lineno}"
        if s.exc is None:
            cur = getattr(fr, "handling", None)
            f = fr
            while cur is None and f.parent is not None:
                f = f.parent
                cur = getattr(f, "handling", None)
            if cur is None:
                raise PyRaise(SExc(RuntimeError, ("No active exception to reraise",), site))
            raise PyRaise(cur)
        e = self.eval(st, s.exc, fr)
        if isinstance(e, type) and issubclass(e, BaseException):
            e = SExc(e, (), site)
        if not isinstance(e, SExc):
            raise Unsupported(f"raise of {e!r}")
        if e.site is None:
            e.site = site
        if s.cause is not None:
            e.cause = self.eval(st, s.cause, fr)
        raise PyRaise(e)

    def s_Try(self, st, s, fr):
        def run_final():
            if s.finalbody:
                self.exec_block(st, s.finalbody, fr)

        try:
            try:
                self.exec_block(st, s.body, fr)
            except PyRaise as pr:
                exc = pr.exc
                for h in s.handlers:
                    if h.type is None:
                        matched = True
                    else:
                        hc = self.eval(st, h.type, fr)
                        hcs = hc if isinstance(hc, tuple) else (hc,)
                        matched = any(isinstance(c, type) and issubclass(exc.cls, c) for c in hcs)
                    if matched:
                        if h.name:
                            fr.locals[h.name] = exc
                        prev = getattr(fr, "handling", None)
                        fr.handling = exc
                        try:
                            self.exec_block(st, h.body, fr)
                        finally:
                            fr.handling = prev
                        break
                else:
                    raise
            else:
                self.exec_block(st, s.orelse, fr)
        except (PyRaise, _Return, _Break, _Continue):
            run_final()
            raise
        run_final()

    def s_With(self, st, s, fr):
        if len(s.items) != 1:
            raise Unsupported("with: several items")
        item = s.items[0]
        cm = self.eval(st, item.context_expr, fr)
        if isinstance(cm, tuple) and cm and cm[0] == "suppress":
            try:
                self.exec_block(st, s.body, fr)
            except PyRaise as pr:
                if not any(issubclass(pr.exc.cls, c) for c in cm[1]):
                    raise
            return
        if isinstance(cm, ModelObj) and hasattr(cm, "py_enter"):
            v = cm.py_enter(self, st)
            if item.optional_vars is not None:
                self.assign_target(st, item.optional_vars, v, fr)
            try:
                self.exec_block(st, s.body, fr)
            except PyRaise as pr:
                if not cm.py_exit(self, st, pr.exc):
                    raise
                return
            cm.py_exit(self, st, None)
            return
        raise Unsupported(f"with {ast.unparse(item.context_expr)}")

    def s_Delete(self, st, s, fr):
        for t in s.targets:
            if isinstance(t, ast.Subscript):
                obj = self.eval(st, t.value, fr)
                idx = self.eval_index(st, t.slice, fr)
                from .builtins_model import del_subscript

                del_subscript(self, st, obj, idx)
            elif isinstance(t, ast.Name):
                fr.locals.pop(t.id, None)
            elif isinstance(t, ast.Attribute):
                obj = self.eval(st, t.value, fr)
                if isinstance(obj, SObj):
                    obj.fields.pop(mangle(fr, t.attr), None)
                else:
                    raise Unsupported("del attribute")
            else:
                raise Unsupported("del target")

    def s_FunctionDef(self, st, s, fr):
        ref = SRC.FnRef(fr.mod, s, f"{fr.fn.ref.qualname}.<{s.name}>" if fr.fn else s.name)
        fv = FnVal(ref, closure=fr)
        for d in reversed(s.decorator_list):
            dv = self.eval(st, d, fr)
            if isinstance(dv, tuple) and dv and dv[0] == "wraps":
                fv.wrapped = dv[1]
                continue
            fv = self.call(st, dv, [fv])
        fr.locals[s.name] = fv

    def s_Nonlocal(self, st, s, fr):
        fr.nonlocals = tuple(getattr(fr, "nonlocals", ())) + tuple(s.names)

    def s_Global(self, st, s, fr):
        """`global a, b`: later stores to these names in this function body go to the module state.  Only for names
        the contract under verification models as process-global state (`globals_`: their value at entry is an
        arbitrary member of the declared shape, loads see the last store -- Frame.lookup); anything else stays
        Unsupported.  CPython rejects a function that uses or assigns a name before its `global` declaration
        (SyntaxError), so handling the declaration when it is executed is the same as handling it at compile time."""
        have = st.ghost.get("globals") or {}
        for n in s.names:
            if n not in have:
                raise Unsupported(f"global statement for {n!r}, which the contract's globals_ does not model")
            if n in fr.locals:
                raise Unsupported(f"global statement for {n!r} after a local binding")
        fr.global_names = tuple(getattr(fr, "global_names", ())) + tuple(s.names)

    def s_Import(self, st, s, fr):
        raise Unsupported("import inside function")

    def s_ImportFrom(self, st, s, fr):
        import importlib

        if s.level:
            pkg = fr.mod.modname.rsplit(".", s.level)[0] if not fr.mod.relpath.endswith("__init__.py") else fr.mod.modname
            name = f"{pkg}.{s.module}" if s.module else pkg
        else:
            name = s.module
        m = importlib.import_module(name)
        for a in s.names:
            try:
                v = getattr(m, a.name)
            except AttributeError:
                v = importlib.import_module(f"{name}.{a.name}")
            fr.locals[a.asname or a.name] = v

    def s_Break(self, st, s, fr):
        raise _Break()

    def s_Continue(self, st, s, fr):
        raise _Continue()

    # ---- loops
    def loop_spec(self, fr, node):
        if fr.fn is None:
            return None
        return self.task.loop_spec(fr.fn.ref, node)

    def s_While(self, st, s, fr):
        spec = self.loop_spec(fr, s)
        if spec is None or spec.invariant is None:
            n = 0
            limit = spec.unroll if spec and spec.unroll else self.max_unroll
            while True:
                if not self.truth(st, self.eval(st, s.test, fr)):
                    self.exec_block(st, s.orelse, fr)
                    return
                try:
                    self.exec_block(st, s.body, fr)
                except _Break:
                    return
                except _Continue:
                    pass
                n += 1
                if n > limit:
                    if spec and spec.unroll:
                        raise PathEnd()  # bounded unrolling: cut (stated bound)
                    raise Unsupported(f"while loop without invariant exceeds {limit} iterations")
        ordinal = self.task.loop_ordinal(fr.fn.ref, s)
        name = f"{fr.fn.ref.qualname}/loop{ordinal}"
        counting = getattr(spec, "counter", False)
        entry = self._entry_snapshot(fr)  # `at_entry` of the invariant's view: the locals when the loop was reached
        view0 = self.loop_view(fr, 0 if counting else None, None, entry)
        self.check_inv(st, spec, view0, f"{name}/inv-init")
        self.havoc_loop(st, s, spec, fr)
        k = None
        if counting:
            k = st.fresh_int("iter")  # ghost: the number of completed iterations, arbitrary
            st.assume(V._cmp(">=", k, 0))
        view = self.loop_view(fr, k, None, entry)
        self.assume_inv(st, spec, view)
        watched = self._watch_lists(s, spec, fr)

        def left(broke):
            if counting:
                end = dict(self._entry_snapshot(fr)._d)
                end.update(i_=k, broke_=broke)
                st.ghost.setdefault("loop_end", {})[ordinal] = View(end)

        if self.truth(st, self.eval(st, s.test, fr)):
            d0 = spec.decreases(self.loop_view(fr, k, None, entry)) if spec.decreases else None
            if d0 is not None:
                st.oblige(f"{name}/decreases-bounded", V._cmp(">=", d0, 0), "termination")
            mark = len(st.trace)
            try:
                self.exec_block(st, s.body, fr)
            except _Break:
                self._check_watched(watched, name)
                left(True)
                return
            except _Continue:
                pass
            self._check_watched(watched, name)
            v2 = self.loop_view(fr, k + 1 if counting else None, None, entry, mark)
            self.check_inv(st, spec, v2, f"{name}/inv-preserve")
            if d0 is not None:
                st.oblige(f"{name}/decreases", V._cmp("<", spec.decreases(v2), d0), "termination")
            raise PathEnd()
        left(False)
        self.exec_block(st, s.orelse, fr)

    def loop_view(self, fr, i, iter_seq=None, entry=None, mark=None):
        d = {"iter_": iter_seq, "at_entry": entry, "trace_mark_": mark}
        f = fr
        chain = []
        while f is not None:
            chain.append(f)
            f = f.parent
        for f in reversed(chain):
            d.update(f.locals)
        if i is not None:
            d["i_"] = i
        d["old"] = getattr(self.task, "old_view", None)
        return View(d)

    def check_inv(self, st, spec, view, name):
        r = spec.invariant(view)
        if inspect.isgenerator(r):
            for label, f in r:
                st.oblige(f"{name}/{label}", f, "invariant")
        else:
            st.oblige(name, r, "invariant")

    def assume_inv(self, st, spec, view):
        # ghost flag: the invariant is being evaluated as an assumption (a contract helper may then produce a
        # genuine quantifier where, as a goal, it would produce a Skolem instance)
        st.ghost["inv_assuming"] = st.ghost.get("inv_assuming", 0) + 1
        try:
            r = spec.invariant(view)
            if inspect.isgenerator(r):
                for _label, f in r:
                    st.assume(f if isinstance(f, (SBool, bool)) else mk_bool(V._zb(f)))
            else:
                st.assume(r if isinstance(r, (SBool, bool)) else mk_bool(V._zb(r)))
        finally:
            st.ghost["inv_assuming"] -= 1

    def loop_targets(self, s):
        """Names / self-attributes / mutated containers assigned anywhere in the loop."""
        names, attrs, mutated = set(), set(), set()

        def tgt(t):
            if isinstance(t, ast.Name):
                names.add(t.id)
            elif isinstance(t, (ast.Tuple, ast.List)):
                for e in t.elts:
                    tgt(e)
            elif isinstance(t, ast.Attribute) and isinstance(t.value, ast.Name):
                attrs.add((t.value.id, t.attr))
            elif isinstance(t, ast.Subscript) and isinstance(t.value, ast.Name):
                mutated.add(t.value.id)
            elif isinstance(t, ast.Starred):
                tgt(t.value)

        body_nodes = []
        for part in (s.body, s.orelse):
            for b in part:
                body_nodes.extend(ast.walk(b))
        if isinstance(s, ast.For):
            tgt(s.target)
        for n in body_nodes:
            if isinstance(n, ast.Assign):
                for t in n.targets:
                    tgt(t)
            elif isinstance(n, (ast.AugAssign, ast.AnnAssign)):
                tgt(n.target)
            elif isinstance(n, ast.NamedExpr):
                tgt(n.target)
            elif isinstance(n, ast.For):
                tgt(n.target)
            elif isinstance(n, ast.Delete):
                for t in n.targets:
                    tgt(t)
            elif isinstance(n, ast.Call) and isinstance(n.func, ast.Attribute) and isinstance(n.func.value, ast.Name):
                if n.func.attr in ("append", "extend", "insert", "pop", "remove", "sort", "reverse", "clear", "update", "setdefault", "register", "unregister", "add", "discard"):
                    mutated.add(n.func.value.id)
        return names, attrs, mutated

    def havoc_loop(self, st, s, spec, fr):
        names, attrs, mutated = self.loop_targets(s)
        for m in spec.modifies:
            if "." in m:
                attrs.add(tuple(m.split(".", 1)))
            else:
                names.add(m)
        for n in sorted(names | mutated):
            try:
                cur = fr.lookup(n)
            except PyRaise:
                if n in spec.shapes and n in names:
                    # first assigned inside the loop, but READ by later iterations before they assign it (a "current
                    # row" kind of variable): LoopSpec.shapes names its shape, the arbitrary iteration starts with a
                    # value of that shape and the invariant says what it is.  (In the very first iteration CPython has
                    # the name unbound; a read there would be an UnboundLocalError, which this does not report.)
                    fr.locals[n] = spec.shapes[n].fresh(st, n)
                continue  # first assigned inside the loop
            if isinstance(cur, ModelObj):
                if hasattr(cur, "py_havoc"):
                    cur.py_havoc(st)
                continue
            if n in mutated and n not in names and isinstance(cur, V.SOpt) and isinstance(cur.val, ModelObj) and hasattr(cur.val, "py_havoc"):
                # an Optional[dict] parameter whose dict the loop changes IN PLACE (`d[k] = v` under `if d`): the object
                # stays the one the caller holds, its content becomes arbitrary (rebinding the local to a fresh object would
                # hide the change from a "not modified" clause about the argument)
                cur.val.py_havoc(st)
                continue
            if n in mutated and n not in names and isinstance(cur, LRef):
                shp = spec.shapes.get(n) or S.shape_of(cur)
                cur.seq = shp.fresh_seq(st, n) if isinstance(shp, S.ListOf) else shp.fresh(st, n).seq
                continue
            if isinstance(cur, (FnVal, types.ModuleType, type)) or callable(cur) and not isinstance(cur, Sym):
                continue
            shp = spec.shapes.get(n) or S.shape_of(cur)
            val = shp.fresh(st, n)
            f = fr
            while f is not None and n not in f.locals:
                f = f.parent
            (f or fr).locals[n] = val
        for on, an in sorted(attrs):
            try:
                obj = fr.lookup(on)
            except PyRaise:
                continue
            if isinstance(obj, SObj) and an in obj.fields:
                cur = obj.fields[an]
                shp = spec.shapes.get(f"{on}.{an}") or (obj.shape.fields.get(an) if obj.shape else None) or S.shape_of(cur)
                obj.fields[an] = shp.fresh(st, f"{on}.{an}")

    def _watch_lists(self, s, spec, fr):
        """Lists held in local variables that the loop is NOT declared to change (no assignment / mutating method
        call in its body, not in `modifies`): a callee contract with `modifies_args` must not have replaced their
        contents during the symbolic iteration.  Such a list is invisible to the syntactic loop analysis and would
        keep its loop-entry value in the 'arbitrary iteration' state, which is unsound."""
        names, _attrs, mutated = self.loop_targets(s)
        declared = names | mutated | {m for m in spec.modifies if "." not in m}
        out = {}
        f = fr
        while f is not None:
            for k, v in f.locals.items():
                if isinstance(v, LRef) and k not in declared and k not in out:
                    out[k] = (v, v.seq)
            f = f.parent
        return out

    @staticmethod
    def _check_watched(watched, where):
        by_callee = V.cur().ghost.get("lists_modified_by_callee", [])
        for k, (ref, seq0) in watched.items():
            if ref.seq is not seq0 and any(ref is m for m in by_callee):
                raise Unsupported(f"loop {where} changes the list `{k}` which is not in its havoc set (add it to LoopSpec.modifies)")

    def s_For(self, st, s, fr):
        it = self.eval(st, s.iter, fr)
        it = st.force(it)
        if getattr(it, "is_iterator", False):
            # `for x in <iterator object>` (builtins_model.ListIter): one `next()` per iteration, so that the iterator
            # is left where a `break` stops and what follows (`lst.extend(it)`, another loop) sees only the rest;
            # unrolled -- an invariant over an iterator object is not supported
            spec = self.loop_spec(fr, s)
            if spec is not None and spec.invariant is not None:
                raise Unsupported("loop invariant on a for loop over an iterator object")
            n = 0
            while it.more(st):
                n += 1
                if n > self.max_unroll:
                    raise Unsupported("for loop over an iterator unrolled beyond the limit")
                self.assign_target(st, s.target, it.step(self, st), fr)
                try:
                    self.exec_block(st, s.body, fr)
                except _Break:
                    return
                except _Continue:
                    continue
            self.exec_block(st, s.orelse, fr)
            return
        seq = self.iter_view(st, it)
        if isinstance(seq, Q.GuardedSeq):
            raise Unsupported("for statement over a collection with symbolic membership (seqs.GuardedSeq: folds only)")
        spec = self.loop_spec(fr, s)
        n0 = Q.seq_len(seq)
        if spec is None or spec.invariant is None:
            if not isinstance(n0, int) and not isinstance(seq, LRef) and not getattr(self.task, "unroll_symbolic", False):
                raise Unsupported(f"for loop over a sequence of symbolic length needs an invariant ({ast.unparse(s.iter)})")
            i = 0
            while True:
                n = Q.seq_len(seq)
                if isinstance(n, int):
                    more = i < n
                else:
                    more = st.branch(V._cmp("<", i, n))
                if not more:
                    break
                if i > self.max_unroll:
                    raise Unsupported("for loop unrolled beyond the limit")
                self.assign_target(st, s.target, self._iter_elem(seq, i), fr)
                i += 1
                try:
                    self.exec_block(st, s.body, fr)
                except _Break:
                    return
                except _Continue:
                    continue
            self.exec_block(st, s.orelse, fr)
            return
        name = f"{fr.fn.ref.qualname}/loop{self.task.loop_ordinal(fr.fn.ref, s)}"
        entry = self._entry_snapshot(fr)
        self.check_inv(st, spec, self.loop_view(fr, 0, seq, entry), f"{name}/inv-init")
        self.havoc_loop(st, s, spec, fr)
        i = st.fresh_int("iter")
        n = Q.seq_len(seq)
        st.assume(V._cmp(">=", i, 0))
        st.assume(V._cmp("<=", i, n))
        self.assume_inv(st, spec, self.loop_view(fr, i, seq, entry))
        watched = self._watch_lists(s, spec, fr)
        if st.branch(V._cmp("<", i, n)):
            elem = self._iter_elem(seq, i)
            self.assign_target(st, s.target, elem, fr)
            mark = len(st.trace)
            st.ghost["loop_elem"] = elem
            st.ghost["loop_index"] = i  # ghost: the index of the arbitrary iteration (read-only, contract side)
            try:
                self.exec_block(st, s.body, fr)
            except _Break:
                self._check_watched(watched, name)
                return
            except _Continue:
                pass
            self._check_watched(watched, name)
            self.check_inv(st, spec, self.loop_view(fr, i + 1, seq, entry, mark), f"{name}/inv-preserve")
            raise PathEnd()
        self.exec_block(st, s.orelse, fr)

    @staticmethod
    def _iter_elem(seq, i):
        """Element i handed out by a `for` loop: a row of a nested list is a list (read-only view, see seqs.RowItem)."""
        e = Q.seq_get(seq, i)
        if Q.is_nested(seq.seq if isinstance(seq, LRef) else seq) and isinstance(e, SSeq):
            return Q.RowItem(e, seq if isinstance(seq, LRef) else None)
        return e

    def _entry_snapshot(self, fr):
        """Values at loop entry (before the havoc): locals, and a snapshot of `self`'s fields."""
        d = {}
        f = fr
        chain = []
        while f is not None:
            chain.append(f)
            f = f.parent
        for f in reversed(chain):
            d.update(f.locals)
        for k, v in list(d.items()):
            if isinstance(v, (SObj, LRef)) or (isinstance(v, ModelObj) and hasattr(v, "py_version")):
                # lists too: the loop havoc replaces a mutated list's content in place; likewise a versioned model
                # object (a dict with symbolic keys): `at_entry.<name>` is its value when the loop was reached
                d[k] = v.snapshot()
        return View(d)

    def iter_view(self, st, it):
        """Something with seq_len / seq_get."""
        if isinstance(it, (tuple, SSeq, SRange, LRef)) or getattr(it, "is_text", False):
            return it
        if isinstance(it, list):
            return tuple(it)
        if isinstance(it, range):
            return tuple(it)
        if isinstance(it, (str, bytes)):
            return tuple(it)
        if isinstance(it, ModelObj):
            return it.py_iter(self, st)
        if isinstance(it, SOpaque):
            # an opaque individual that its protocol knows how to iterate (`iter(ip, st, obj)` -> a sequence value),
            # e.g. a node of an algebraic data type whose children are individuals of the same kind
            from .api import PROTOCOLS as _P

            p = _P.get(it.kind)
            if p is not None and hasattr(p, "iter"):
                return p.iter(self, st, it)
        if isinstance(it, DRef):
            return tuple(it.d.keys())
        if isinstance(it, dict):
            return tuple(it.keys())
        if isinstance(it, SObj) and it.base_list:
            return it.fields[it.base_list]
        if isinstance(it, (frozenset, set)):
            return tuple(sorted(it, key=repr))
        raise Unsupported(f"iteration over {type(it).__name__}")

    # ------------------------------------------------------------------ expressions
    def eval(self, st, e, fr: Frame):
        m = getattr(self, "e_" + type(e).__name__, None)
        if m is None:
            raise Unsupported(f"expression {type(e).__name__}: {ast.unparse(e)[:60]}")
        return m(st, e, fr)

    def e_Constant(self, st, e, fr):
        return e.value

    def e_Name(self, st, e, fr):
        return fr.lookup(e.id)

    def e_Tuple(self, st, e, fr):
        out = []
        sym_parts = None
        for x in e.elts:
            if isinstance(x, ast.Starred):
                v = self.iter_view(st, st.force(self.eval(st, x.value, fr)))
                if isinstance(v, LRef):
                    v = v.seq
                n = Q.seq_len(v)
                if not isinstance(n, int):
                    # symbolic length: the display becomes a concatenation of parts
                    sym_parts = (sym_parts or []) + [tuple(out), v]
                    out = []
                    continue
                out.extend(Q.seq_get(v, i) for i in range(n))
            else:
                out.append(self.eval(st, x, fr))
        if sym_parts is None:
            return tuple(out)
        sym_parts.append(tuple(out))
        if any(Q.is_nested(p) for p in sym_parts):
            # `[*rows[:y], new_row, *rows[y + 1:]]` -- a display that splices rows of a nested list (held BY VALUE, see
            # seqs.fresh_seq) with list objects given explicitly: those become rows of the new list by value too
            # (seqs.row_value: the old reference is marked as moved, any later use of it is Unsupported -- row aliasing
            # is not modelled), so that every element of the result is an immutable sequence value and reading an
            # element at a symbolic index is a conditional term instead of a path fork.
            # Cross-check against CPython: spec/xcheck_cases.py x_splice_rows.
            sym_parts = [tuple(Q.row_value(x) if type(x) is LRef else x for x in p) if isinstance(p, tuple) else p for p in sym_parts]
        parts = [p for p in sym_parts if not (isinstance(p, tuple) and not p)]
        r = parts[0]
        for p in parts[1:]:
            r = Q.seq_concat(r, p)
        r = Q.to_sseq(r)
        r.parts = [q for p in parts for q in (getattr(p, "parts", None) or [p])]
        return r

    def e_List(self, st, e, fr):
        return LRef(self.e_Tuple(st, e, fr))

    def e_Set(self, st, e, fr):
        vals = [self.eval(st, x, fr) for x in e.elts]
        if _all_concrete(vals):
            return set(vals)
        raise Unsupported("set display with symbolic members")

    def e_Dict(self, st, e, fr):
        d = {}
        for k, v in zip(e.keys, e.values):
            if k is None:
                inner = self.eval(st, v, fr)
                d.update(inner.d if isinstance(inner, DRef) else inner)
                continue
            kv = self.eval(st, k, fr)
            if isinstance(kv, Sym):
                raise Unsupported("dict display with symbolic key")
            d[kv] = self.eval(st, v, fr)
        return DRef(d)

    def e_JoinedStr(self, st, e, fr):
        h = getattr(getattr(self.task, "c", None), "fstring", None)
        if h is not None:
            # contract-file hook: an f-string whose VALUE matters and has symbolic fields (`f"#{r:x}{g:x}{b:x}"` on
            # modelled ints / modelled strs).  The hook receives the evaluated pieces — str constants and
            # (value, format-spec, conversion) triples — and returns the modelled str, or NotImplemented to fall
            # through to the core rule below (opaque message text).  Fields are evaluated once, left to right.
            pieces = []
            for v in e.values:
                if isinstance(v, ast.Constant):
                    pieces.append(str(v.value))
                else:
                    spec = ""
                    if v.format_spec is not None:
                        spec = "".join(str(c.value) for c in v.format_spec.values if isinstance(c, ast.Constant))
                    pieces.append((self.eval(st, v.value, fr), spec, v.conversion))
            if any(isinstance(p, tuple) and isinstance(p[0], Sym) for p in pieces):
                r = h(self, st, pieces)
                if r is not NotImplemented:
                    return r
                return ("fstring", tuple(p if isinstance(p, str) else "<sym>" for p in pieces))
            out = []
            for p in pieces:
                if isinstance(p, str):
                    out.append(p)
                    continue
                x, spec, conv = p
                if isinstance(x, (FnVal, SExc)):
                    out.append("<sym>")
                    return ("fstring", tuple(out))
                x = repr(x) if conv == ord("r") else str(x) if conv == ord("s") else x
                out.append(format(x, spec))
            return "".join(out)
        parts = []
        for v in e.values:
            if isinstance(v, ast.Constant):
                parts.append(str(v.value))
            else:
                x = self.eval(st, v.value, fr)
                if isinstance(x, SInt) and v.conversion == -1 and (v.format_spec is None or all(isinstance(c, ast.Constant) and c.value == "d" for c in v.format_spec.values)):
                    parts.append(x)  # `{n}` / `{n:d}` of a symbolic int: its decimal rendering, kept symbolic (SFmt)
                    continue
                if isinstance(x, Sym) or isinstance(x, (FnVal, SExc)):
                    parts = [p for p in parts if isinstance(p, str)]
                    parts.append("<sym>")
                    return ("fstring", tuple(parts))  # opaque text (messages)
                spec = ""
                if v.format_spec is not None:
                    spec = "".join(str(c.value) for c in v.format_spec.values if isinstance(c, ast.Constant))
                if v.conversion == ord("r"):
                    x = repr(x)
                elif v.conversion == ord("s"):
                    x = str(x)
                parts.append(format(x, spec))
        if any(not isinstance(p, str) for p in parts):
            return V.SFmt(parts)
        return "".join(parts)

    def e_Lambda(self, st, e, fr):
        fn = ast.FunctionDef(name="<lambda>", args=e.args, body=[ast.Return(value=e.body, lineno=e.lineno, col_offset=0)], decorator_list=[], lineno=e.lineno, col_offset=e.col_offset, end_lineno=e.end_lineno, end_col_offset=e.end_col_offset)
        ref = SRC.FnRef(fr.mod, fn, f"{fr.fn.ref.qualname if fr.fn else ''}.<lambda@{e.lineno}>")
        ref.source_hash = lambda: "lambda"
        return FnVal(ref, closure=fr)

    def e_IfExp(self, st, e, fr):
        c = self.eval(st, e.test, fr)
        if isinstance(c, SBool) and self._simple(e.body) and self._simple(e.orelse):
            a, b = self.eval(st, e.body, fr), self.eval(st, e.orelse, fr)
            if is_num(a) and is_num(b) and not isinstance(a, (bool, SBool)) and not isinstance(b, (bool, SBool)):
                return ite(c, a, b)
        if self.truth(st, c):
            return self.eval(st, e.body, fr)
        return self.eval(st, e.orelse, fr)

    @staticmethod
    def _simple(e):
        return isinstance(e, (ast.Name, ast.Constant)) or (isinstance(e, ast.UnaryOp) and isinstance(e.operand, (ast.Name, ast.Constant)))

    def e_NamedExpr(self, st, e, fr):
        v = self.eval(st, e.value, fr)
        self.assign_target(st, e.target, v, fr)
        return v

    def e_BoolOp(self, st, e, fr):
        is_and = isinstance(e.op, ast.And)
        v = None
        for i, x in enumerate(e.values):
            v = self.eval(st, x, fr)
            if i == len(e.values) - 1:
                return v
            t = self.truth(st, v)
            if is_and and not t:
                return v
            if not is_and and t:
                return v
        return v

    def e_UnaryOp(self, st, e, fr):
        v = self.eval(st, e.operand, fr)
        if isinstance(e.op, ast.Not):
            if isinstance(v, SBool):
                return neg(v)
            return not self.truth(st, v)
        v = st.force(v)
        if v is None:
            raise PyRaise(SExc(TypeError, ("bad operand type for unary op: 'NoneType'",)))  # as CPython: -None / +None / ~None
        if isinstance(e.op, ast.USub):
            return -v
        if isinstance(e.op, ast.UAdd):
            return +v
        if isinstance(e.op, ast.Invert):
            if isinstance(v, int):
                return ~v
            return -v - 1
        raise Unsupported("unary op")

    def e_BinOp(self, st, e, fr):
        a = self.eval(st, e.left, fr)
        b = self.eval(st, e.right, fr)
        return self.binop(st, e.op, a, b)

    def binop(self, st, op, a, b):
        a, b = st.force(a), st.force(b)
        h = getattr(getattr(self.task, "c", None), "binop", None)
        if h is not None:
            # contract-file hook for operand kinds the core does not model (e.g. str + chr(k) on a modelled string);
            # NotImplemented falls through to the core rules
            r = h(self, st, op, a, b)
            if r is not NotImplemented:
                return r
        for x, refl in ((a, False), (b, True)):
            # a modelled value (ModelObj) may define the operator itself: py_binop(ip, st, op, other, reflected)
            if isinstance(x, ModelObj) and hasattr(x, "py_binop"):
                r = x.py_binop(self, st, op, a if refl else b, refl)
                if r is not NotImplemented:
                    return r
        if not isinstance(a, Sym) and not isinstance(b, Sym):
            try:
                return self._concrete_binop(op, a, b)
            except ZeroDivisionError as ex:
                raise PyRaise(SExc(ZeroDivisionError, ex.args)) from None
            except TypeError as ex:
                raise PyRaise(SExc(TypeError, ex.args)) from None
        if isinstance(a, SSlice) or isinstance(b, SSlice):
            raise PyRaise(SExc(TypeError, ("unsupported operand type(s) for slice",)))
        if getattr(a, "is_text", False) or getattr(b, "is_text", False) or (isinstance(a, (str, bytes)) or isinstance(b, (str, bytes))) and isinstance(op, ast.Mult):
            return self.text_binop(st, op, a, b)
        seq_types = (tuple, SSeq, LRef)
        if isinstance(a, seq_types) or isinstance(b, seq_types):
            return self.seq_binop(st, op, a, b)
        if (isinstance(a, V.SFmt) or isinstance(b, V.SFmt)) and isinstance(op, ast.Add) and isinstance(a, (str, V.SFmt)) and isinstance(b, (str, V.SFmt)):
            return a + b
        if a is None or b is None:
            raise PyRaise(SExc(TypeError, ("unsupported operand type(s) for NoneType",)))
        if isinstance(a, SOpaque) or isinstance(b, SOpaque):
            # an operator applied to an opaque individual: the protocol of its kind models it, if it has a model
            # (otherwise the rules below apply, e.g. chr(x) + chr(y), and finally Unsupported)
            from .api import PROTOCOLS as _P

            o = a if isinstance(a, SOpaque) else b
            if hasattr(_P.get(o.kind), "binop"):
                return self.task.opaque_binop(self, st, op, a, b)
        if is_num(a) and is_num(b):
            t = type(op)
            if t is ast.Add:
                return a + b
            if t is ast.Sub:
                return a - b
            if t is ast.Mult:
                return a * b
            if t is ast.Div:
                return a / b
            if t is ast.FloorDiv:
                return a // b
            if t is ast.Mod:
                return a % b
            if t in (ast.BitAnd, ast.BitOr, ast.BitXor) and isinstance(a, (SBool, bool)) and isinstance(b, (SBool, bool)):
                za, zb = V._zb(a), V._zb(b)
                return mk_bool({ast.BitAnd: z3.And, ast.BitOr: z3.Or, ast.BitXor: z3.Xor}[t](za, zb))
            if t in (ast.BitAnd, ast.BitOr, ast.BitXor, ast.LShift, ast.RShift):
                return self.bitop(st, t, a, b)
            if t is ast.Pow and isinstance(b, int) and 0 <= b <= 4:
                r = 1
                for _ in range(b):
                    r = r * a
                return r
        if isinstance(op, ast.Add) and isinstance(a, SOpaque) and isinstance(b, SOpaque) and a.kind == "Char" and b.kind == "Char":
            # chr(x) + chr(y): the two-character str made of exactly these characters
            from .text import SText

            t = SText("str", 2, st.fresh_name("pair"))
            st.assume(z3.And(t.f(z3.IntVal(0)) == a.e, t.f(z3.IntVal(1)) == b.e))
            return t
        raise Unsupported(f"binary op {type(op).__name__} on {type(a).__name__}, {type(b).__name__}")

    def text_binop(self, st, op, a, b):
        """str/bytes operators on modelled texts (pyvc/text.py, derived texts): `+` between two texts of one kind
        (TypeError otherwise, as CPython), `*` between a one-element text and an int."""
        from .text import SConcat, SRepeat, as_text

        if isinstance(op, ast.Add):
            ta, tb = as_text(a), as_text(b)
            if ta is None or tb is None or ta.kind != tb.kind:
                raise PyRaise(SExc(TypeError, ("can only concatenate str to str / bytes to bytes",)))
            return SConcat(ta, tb)
        if isinstance(op, ast.Mult):
            t, n = (a, b) if as_text(a) is not None else (b, a)
            t = as_text(t)
            if t is None or not is_num(n) or isinstance(n, SReal):
                raise PyRaise(SExc(TypeError, ("can't multiply sequence by non-int",)))
            return SRepeat(t, n)
        raise Unsupported(f"binary op {type(op).__name__} on a text")

    def bitop(self, st, t, a, b):
        """Bit operations on non-negative ints, in integer arithmetic:
        x & const-mask = sum over the mask's bit runs of ((x // 2^lo) % 2^len) * 2^lo ;  x << k = x * 2^k ;
        x >> k = x // 2^k ;  x | y = x + y when their set bits provably cannot overlap
        (x a multiple of 2^k and 0 <= y < 2^k) ; anything else through BitVec of the declared width."""
        if t is ast.LShift and isinstance(b, int) and b >= 0:
            return a * (2**b)
        if t is ast.RShift and isinstance(b, int) and b >= 0:
            return a // (2**b)
        if t is ast.BitAnd and (isinstance(a, int) or isinstance(b, int)):
            x, m = (b, a) if isinstance(a, int) else (a, b)
            if m >= 0:
                return and_mask_formula(x, m)
        if t is ast.BitOr:
            for k in (6, 12, 18, 8, 16, 4, 2, 1, 24, 7, 9, 10, 32):
                for x, y in ((a, b), (b, a)):
                    cond = both(V._cmp("==", x % (1 << k), 0) if not isinstance(x, int) else x % (1 << k) == 0, V._cmp(">=", y, 0), V._cmp("<", y, 1 << k), V._cmp(">=", x, 0))
                    if cond is True:
                        return x + y
                    if cond is not False:
                        r, _m = st._check(z3.Not(V._zb(cond)), st.cfg.branch_timeout_ms)
                        if r == z3.unsat:
                            return x + y
        w = getattr(self.task, "bv_width", 64)
        za, zb = z3.Int2BV(V._z(a), w), z3.Int2BV(V._z(b), w)
        for x in (a, b):
            self._require_nonneg(st, x, "bit operation", hi=2 ** (w - 1))
        r = {ast.BitAnd: lambda x, y: x & y, ast.BitOr: lambda x, y: x | y, ast.BitXor: lambda x, y: x ^ y, ast.LShift: lambda x, y: x << y, ast.RShift: lambda x, y: z3.LShR(x, y)}[t](za, zb)
        return mk_int(z3.BV2Int(r, False))

    def _require_nonneg(self, st, x, what, hi=None):
        c = V._cmp(">=", x, 0) if hi is None else both(V._cmp(">=", x, 0), V._cmp("<", x, hi))
        if c is True:
            return
        if c is False:
            raise Unsupported(f"{what} on a negative operand")
        r, _ = st._check(z3.Not(V._zb(c)), st.cfg.branch_timeout_ms)
        if r != z3.unsat:
            raise Unsupported(f"{what}: operand not provably non-negative" + (f" and below {hi}" if hi else ""))

    @staticmethod
    def _concrete_binop(op, a, b):
        import operator as o

        table = {ast.Add: o.add, ast.Sub: o.sub, ast.Mult: o.mul, ast.Div: o.truediv, ast.FloorDiv: o.floordiv, ast.Mod: o.mod, ast.Pow: o.pow, ast.LShift: o.lshift, ast.RShift: o.rshift, ast.BitAnd: o.and_, ast.BitOr: o.or_, ast.BitXor: o.xor}
        return table[type(op)](a, b)

    def seq_binop(self, st, op, a, b):
        if isinstance(op, ast.Add):
            ra, rb = (a.seq if isinstance(a, LRef) else a), (b.seq if isinstance(b, LRef) else b)
            if isinstance(a, LRef) != isinstance(b, LRef):
                raise PyRaise(SExc(TypeError, ("can only concatenate list to list",)))
            r = Q.seq_concat(ra, rb)
            return LRef(r) if isinstance(a, LRef) else r
        if isinstance(op, ast.Mult):
            s, n = (a, b) if isinstance(a, (tuple, SSeq, LRef)) else (b, a)
            rs = s.seq if isinstance(s, LRef) else s
            if isinstance(n, int) and isinstance(rs, tuple):
                r = rs * n
                return LRef(r) if isinstance(s, LRef) else r
            if is_num(n):
                from .builtins_model import seq_repeat

                r = seq_repeat(st, rs, n)
                return LRef(r) if isinstance(s, LRef) else r
        raise Unsupported(f"sequence op {type(op).__name__}")

    def e_Compare(self, st, e, fr):
        left = self.eval(st, e.left, fr)
        result = True
        for op, rexp in zip(e.ops, e.comparators):
            right = self.eval(st, rexp, fr)
            r = self.compare(st, op, left, right)
            result = both(result, r) if (isinstance(result, SBool) or isinstance(r, SBool)) else (result and r)
            if result is False:
                return False
            left = right
        return result

    def compare(self, st, op, a, b):
        t = type(op)
        if t in (ast.Is, ast.IsNot):
            r = self.is_(st, a, b)
            return r if t is ast.Is else neg(r)
        if t in (ast.In, ast.NotIn):
            r = self.contains(st, b, a)
            return r if t is ast.In else neg(r)
        if t in (ast.Eq, ast.NotEq):
            r = self.equals(st, a, b)
            return r if t is ast.Eq else neg(r)
        a, b = st.force(a), st.force(b)
        if not isinstance(a, Sym) and not isinstance(b, Sym):
            try:
                return {ast.Lt: lambda: a < b, ast.LtE: lambda: a <= b, ast.Gt: lambda: a > b, ast.GtE: lambda: a >= b}[t]()
            except TypeError as ex:
                raise PyRaise(SExc(TypeError, ex.args)) from None
        if is_num(a) and is_num(b):
            return V._cmp({ast.Lt: "<", ast.LtE: "<=", ast.Gt: ">", ast.GtE: ">="}[t], a, b)
        if a is None or b is None:
            raise PyRaise(SExc(TypeError, ("'<' not supported between instances of NoneType and int",)))
        for x, y, refl in ((a, b, False), (b, a, True)):
            # an ordering comparison with a modelled value (ModelObj): the model answers (`py_compare(ip, st, op, other,
            # reflected)` -> a truth value, or raises the TypeError CPython raises, e.g. a modelled str against an int)
            if isinstance(x, ModelObj) and hasattr(x, "py_compare"):
                r = x.py_compare(self, st, op, y, refl)
                if r is not NotImplemented:
                    return r
        raise Unsupported(f"ordering comparison of {type(a).__name__} and {type(b).__name__}")

    def is_(self, st, a, b):
        if b is None or a is None:
            x = a if b is None else b
            if isinstance(x, SOpt):
                return mk_bool(x.isnone)
            if isinstance(x, SAtom):
                return x == None if None in x.domain else False  # noqa: E711
            if isinstance(x, V.SIntOrNone):
                return x == None  # noqa: E711  (an Optional[int] whose None a protocol models by an integer code)
            return x is None
        if isinstance(a, (bool, SBool)) and isinstance(b, (bool, SBool)):
            return self.equals(st, a, b)
        if isinstance(a, SOpaque) and isinstance(b, SOpaque) and a.kind == b.kind and self._opaque_eq_hook(a) is not None:
            # identity of two individuals of a kind whose `==` is coarser than identity (protocol hook `py_eq`,
            # see equals): `is` stays identity -- CPython never calls __eq__ for `is`
            return mk_bool(a.e == b.e)
        if isinstance(a, SOpaque) or isinstance(b, SOpaque):
            return self.equals(st, a, b)
        if isinstance(a, SAtom) or isinstance(b, SAtom):
            return self.equals(st, a, b)
        return a is b

    @staticmethod
    def _opaque_eq_hook(x):
        from .api import PROTOCOLS

        return getattr(PROTOCOLS.get(x.kind), "py_eq", None)

    def _seq_equals(self, st, a, b):
        """`a == b` for two sequences of the same Python type (both lists: LRef, or both tuples: tuple / SSeq) of
        which at least one has a symbolic length: equal lengths and pairwise equal elements, which is what CPython's
        list.__eq__ / tuple.__eq__ compute (element test `x is y or x == y`: `equals` is reflexive on the scalar
        values admitted here).  Only scalar elements (opaque individuals, ints, bools, atoms) are admitted: an
        element comparison must not fork inside the quantifier.  Cross-check: spec/xcheck_cases.py x_seq_eq."""
        na, nb = Q.seq_len(a), Q.seq_len(b)

        def elem(j):
            x, y = Q.seq_get(a, j), Q.seq_get(b, j)
            for v in (x, y):
                if not (isinstance(v, (SOpaque, SInt, SBool, SAtom, int, bool, str)) or v is None):
                    raise Unsupported(f"equality of symbolic sequences with elements of type {type(v).__name__}")
            return self.equals(st, x, y)

        if isinstance(na, int) and isinstance(nb, int) and na != nb:
            return False
        # (a concrete length, if there is one, bounds the element comparison: no read beyond a concrete sequence)
        bound = nb if isinstance(nb, int) else na
        return both(V._cmp("==", na, nb) if V.is_sym(na) or V.is_sym(nb) else na == nb, V.forall(0, bound, elem))

    def equals(self, st, a, b):
        if isinstance(a, SOpt) and b is not None:
            a = st.force(a)
        if isinstance(b, SOpt) and a is not None:
            b = st.force(b)
        if isinstance(a, tuple) and isinstance(b, tuple):
            if len(a) != len(b):
                return False
            r = True
            for x, y in zip(a, b):
                r = both(r, self.equals(st, x, y))
            return r
        if isinstance(a, (SSeq, LRef)) or isinstance(b, (SSeq, LRef)):
            if a is b:
                return True
            # a list of symbolic length compared with a list of concrete length (e.g. `keys == ["window resize"]`):
            # equal lengths and equal elements, as CPython's list.__eq__ (both sides must be lists: LRef)
            for x, y in ((a, b), (b, a)):
                if isinstance(x, LRef) and isinstance(x.seq, SSeq) and isinstance(y, LRef) and isinstance(y.seq, tuple):
                    if not st.branch(V._cmp("==", Q.seq_len(x), len(y.seq))):
                        return False
                    r = True
                    for j, c in enumerate(y.seq):
                        r = both(r, self.equals(st, Q.seq_get(x, j), c))
                    return r
            if isinstance(a, LRef) != isinstance(b, LRef):
                if all(isinstance(x, (LRef, SSeq, tuple)) for x in (a, b)):
                    return False  # a list never equals a tuple
            elif all(isinstance(x, (LRef, SSeq, tuple)) for x in (a, b)):
                return self._seq_equals(st, a, b)
            raise Unsupported("equality of symbolic sequences")
        if getattr(a, "is_text", False) or getattr(b, "is_text", False):
            # a modelled text against a text or a str/bytes literal: same kind, same length, same elements;
            # against anything else: unequal (as CPython: str == int is False)
            from .text import as_text, text_eq

            if as_text(a) is None or as_text(b) is None:
                if isinstance(a, Sym) and isinstance(b, Sym):
                    raise Unsupported(f"equality of a text and {type(b if getattr(a, 'is_text', False) else a).__name__}")
                return False
            return text_eq(a, b)
        for x, y in ((a, b), (b, a)):
            # a character of a modelled str compared with a str literal: equal exactly when the literal is that one
            # character -- the individual chr(ord(literal)) of the width model (CPython: str == str by content)
            if isinstance(x, SOpaque) and x.kind == "Char" and isinstance(y, str):
                if len(y) != 1:
                    return False
                from .text import chr_of

                return x == chr_of(ord(y))
        if isinstance(a, SOpaque) and isinstance(b, SOpaque) and a.kind == b.kind:
            # `==` of two individuals of a kind whose protocol declares its own equality (`py_eq(st, a, b)`: an
            # equivalence that contains identity, e.g. bound methods of the same function and object are equal
            # without being the same object); `is` keeps comparing identities (see is_)
            h = self._opaque_eq_hook(a)
            if h is not None:
                return h(st, a, b)
        for x, y in ((a, b), (b, a)):
            # an opaque individual compared with a plain constant: the protocol may answer (`eq_const`), e.g. an
            # abstract key event that may or may not be the string "esc"; without the hook: unequal, as before
            if isinstance(x, SOpaque) and not isinstance(y, Sym):
                from .api import PROTOCOLS

                p = PROTOCOLS.get(x.kind)
                if p is not None and hasattr(p, "eq_const"):
                    return p.eq_const(st, x, y)
        if isinstance(a, Sym):
            r = a == b
        elif isinstance(b, Sym):
            r = b == a
        else:
            r = a == b
        if r is NotImplemented:
            return False
        return r

    def contains(self, st, container, x):
        container = st.force(container)
        if isinstance(container, SOpaque):
            from .api import PROTOCOLS

            p = PROTOCOLS.get(container.kind)
            if p is not None and hasattr(p, "contains"):
                return p.contains(st, container, x)
            raise Unsupported(f"'in' on opaque {container.kind}")
        if isinstance(container, ModelObj):
            return container.py_contains(self, st, x)
        if isinstance(container, SRange):
            return container.contains(st.force(x))
        if isinstance(container, range):
            return Q.in_range(st.force(x), container.start, container.stop, container.step)
        if isinstance(container, DRef):
            container = tuple(container.d.keys())
        if isinstance(container, dict):
            container = tuple(container.keys())
        if isinstance(container, (set, frozenset, list)):
            container = tuple(container)
        if isinstance(container, LRef) and isinstance(container.seq, tuple):
            container = container.seq
        if isinstance(container, tuple):
            r = False
            for c in container:
                r = either(r, self.equals(st, c, x))
            return r
        if isinstance(container, (str, bytes)) and not isinstance(x, Sym):
            return x in container
        cseq = container.seq if isinstance(container, LRef) else container
        if isinstance(cseq, SSeq) and getattr(cseq, "contains_model", None) is not None:
            # the sequence's own membership model (e.g. "holds the resize marker at some index"): may decline
            r = cseq.contains_model(st, st.force(x))
            if r is not NotImplemented:
                return r
        if getattr(x, "is_text", False) or getattr(container, "is_text", False):
            # substring test with a needle of exactly one element (proved on this path): some element equals it
            from .text import as_text, elem_eq, text_has

            needle, hay = as_text(st.force(x)), as_text(container)
            if needle is None or hay is None or needle.kind != hay.kind:
                raise Unsupported("'in' between a text and a non-text / a text of the other kind")
            n1 = needle.length
            if not (isinstance(n1, int) and n1 == 1):
                r0, _m = st._check(V._z(n1) != 1, st.cfg.branch_timeout_ms)
                if r0 != z3.unsat:
                    if isinstance(container, (str, bytes)):
                        # a needle of any length in a CONSTANT haystack: one of its finitely many substrings
                        from .textops import in_const

                        return in_const(needle, container)
                    raise Unsupported("substring test with a needle whose length is not known to be 1")
            e = needle.get(0)
            if isinstance(hay.length, int):
                return either(False, *[elem_eq(hay.get(j), e) for j in range(hay.length)])
            return text_has(hay, e)
        if isinstance(container, str) and isinstance(x, ModelObj) and hasattr(x, "py_in_str"):
            return x.py_in_str(self, st, container)  # <modelled str> in "constant": the model decides
        if isinstance(container, (LRef, SSeq)) and getattr(self.task.c, "abstract_contains", False):
            # membership in a sequence of symbolic length, left unspecified (the contract does not depend on it)
            return st.fresh_bool("contains")
        raise Unsupported(f"'in' on {type(container).__name__}")

    def truth(self, st, v) -> bool:
        if isinstance(v, (SOpt, V.SCases)):
            v = st.force(v)
        if isinstance(v, bool):
            return v
        if isinstance(v, SBool):
            return st.branch(v.e)
        if v is None:
            return False
        if isinstance(v, (SInt, SReal)):
            return st.branch(v.e != 0)
        if isinstance(v, SAtom):
            return bool(v)
        if isinstance(v, (tuple, SSeq, LRef, SRange)):
            n = Q.seq_len(v)
            return n > 0 if isinstance(n, int) else st.branch(V._cmp(">", n, 0))
        if isinstance(v, DRef):
            return bool(v.d)
        if getattr(v, "is_text", False):
            n = v.length
            return n > 0 if isinstance(n, int) else st.branch(V._cmp(">", n, 0))
        if isinstance(v, ModelObj):
            return self.truth(st, v.py_truth(st))
        if isinstance(v, SObj):
            if v.base_list:
                return self.truth(st, v.fields[v.base_list])
            # CPython: bool(obj) is obj.__bool__() if the class defines it, else len(obj) != 0 if the class defines
            # __len__ (an empty Pile / Columns / GridFlow is falsy), else True.  Only repository definitions are
            # followed (cross-check against CPython: static check `engine-rules-agree-with-cpython`, contracts/C19_gridflow.py).
            for dunder in ("__bool__", "__len__"):
                cls, ref = SRC.mro_lookup(v.cls, dunder) if isinstance(v.cls, type) else (None, None)
                if cls is None or cls is object:
                    continue
                if ref is None:
                    raise Unsupported(f"truth of {v.cls.__name__}: {dunder} is not a repository function")
                r = self.call(st, self.getattr(st, v, dunder), [])
                return self.truth(st, r) if dunder == "__bool__" else self.truth(st, V._cmp("!=", r, 0) if isinstance(r, Sym) else r != 0)
            return True
        if isinstance(v, SExc) and "__bool__" in v.attrs:
            # CPython: truth of an instance is __bool__(), else __len__() != 0, else True.  BaseException defines
            # neither, but a subclass may (an error collection with __len__): whoever models the exception value may
            # give its truth value as the modelled attribute `__bool__` (a symbolic bool = "unknown class")
            return self.truth(st, v.attrs["__bool__"])
        if isinstance(v, (SOpaque, FnVal, Method, SSlice, SExc)):
            t = getattr(v, "meta", {}).get("truth") if isinstance(v, SOpaque) else None
            if t is not None:
                return self.truth(st, t(st, v))
            return True
        if isinstance(v, Sym):
            raise Unsupported(f"truth of {type(v).__name__}")
        return bool(v)

    # ---- attribute / subscripts
    def e_Attribute(self, st, e, fr):
        obj = self.eval(st, e.value, fr)
        return self.getattr(st, obj, mangle(fr, e.attr), fr)

    def getattr(self, st, obj, name, fr=None):
        obj = st.force(obj)
        if isinstance(obj, SuperProxy):
            cls, ref = SRC.mro_lookup(obj.obj.cls, name, after=obj.after)
            if cls is None:
                raise PyRaise(SExc(AttributeError, (name,)))
            if ref is None:
                return Method(("super", obj.obj, cls), name)
            if ref.role == "getter":
                # super().name where `name` is a property of the next class in the MRO: CPython runs its getter on the
                # object (descriptor protocol), e.g. the delegating `rows` / `pack` properties of WidgetWrap's mixin
                return self.call_fnval(st, FnVal(ref, None, obj.obj, cls), [], {})
            return self.decorate_method(st, FnVal(ref, None, None, cls), obj.obj)
        if isinstance(obj, SObj):
            return self.obj_getattr(st, obj, name)
        if isinstance(obj, SOpaque):
            return self.task.opaque_getattr(self, st, obj, name)
        if isinstance(obj, ModelObj) and hasattr(obj, "py_getattr"):
            # a model object with data attributes (e.g. the model of a widget built by the code under verification):
            # `py_getattr(ip, st, name)` answers them; NotImplemented falls through to "a method of the model"
            r = obj.py_getattr(self, st, name)
            if r is not NotImplemented:
                return r
        if getattr(obj, "is_text", False) or isinstance(obj, ModelObj):
            return Method(obj, name)
        if isinstance(obj, (LRef, SSlice, SSeq, DRef, SRange)):
            if isinstance(obj, SSlice) and name in ("start", "stop", "step"):
                return getattr(obj, name)
            return Method(obj, name)
        if isinstance(obj, SExc):
            if name == "args":
                return obj.args
            if name == "__traceback__":
                return None
            if name == "with_traceback":
                return Method(obj, "with_traceback")
            if name in (getattr(obj, "attrs", None) or {}):
                # instance attributes given by whoever modelled the raise (e.g. `errno` of an OSError-like exception)
                return obj.attrs[name]
            raise Unsupported(f"exception attribute {name}")
        if isinstance(obj, SInt) and name == "to_bytes":
            return Method(obj, name)  # int.to_bytes(1, order): see call_method
        if isinstance(obj, SAtom) and name == "lower" and all(isinstance(d, str) for d in obj.domain):
            return Method(obj, name)  # str.lower() of a value from a finite set of str constants: see call_method
        if isinstance(obj, Sym):
            raise Unsupported(f"attribute {name} of {type(obj).__name__}")
        if isinstance(obj, tuple) and name in ("index", "count"):
            return Method(obj, name)
        if isinstance(obj, tuple) and getattr(obj, "nt_cls", None) is not None and name in obj.nt_cls._fields:
            return obj[obj.nt_cls._fields.index(name)]  # a NamedTuple component by name (builtins_model.NTuple)
        if obj is None:
            raise PyRaise(SExc(AttributeError, (f"'NoneType' object has no attribute '{name}'",)))
        # concrete python object: module, class, enum, str ...
        try:
            v = getattr(obj, name)
        except AttributeError as ex:
            raise PyRaise(SExc(AttributeError, ex.args)) from None
        # contract-file hook `module_objects = {"<module name>.<attribute>": model value}`: a module-level singleton
        # OBJECT of the repository (e.g. `urwid.text_layout.default_layout`) that the contract file models as an
        # opaque individual; without an entry the real object is returned as before
        mo = getattr(getattr(self.task, "c", None), "module_objects", None)
        if mo and inspect.ismodule(obj) and f"{obj.__name__}.{name}" in mo:
            return mo[f"{obj.__name__}.{name}"]
        return v

    def obj_getattr(self, st, obj: SObj, name):
        if name in obj.fields:
            return obj.fields[name]
        if name == "__class__":
            return obj.cls
        if name == "__dict__":
            from .seqs import ObjDict

            return ObjDict(obj)  # the instance attributes as a live dict view (pyvc.seqs.ObjDict)
        cls, ref = SRC.mro_lookup(obj.cls, name, "getter")
        if cls is not None and ref is not None and ref.role == "getter":
            return self.call_fnval(st, FnVal(ref, None, obj, cls), [], {})
        cls, ref = SRC.mro_lookup(obj.cls, name, "function")
        if cls is None:
            v = self.task.missing_field(self, st, obj, name)
            if v is not NotImplemented:
                return v
            raise PyRaise(SExc(AttributeError, (name,)))
        if ref is None:
            raw = inspect.getattr_static(obj.cls, name)
            if isinstance(raw, (int, str, bytes, tuple, frozenset, type(None), enum.Enum, bool)):
                return raw
            if isinstance(raw, property):
                acc = self.property_accessor(st, cls, name, 0)
                if acc is not None:
                    return self.call_fnval(st, acc.bind(obj), [], {})
            if obj.base_list and hasattr(list, name):
                return Method(obj, name)
            v = self.task.missing_field(self, st, obj, name)
            if v is not NotImplemented:
                return v
            raise Unsupported(f"attribute {name} of {obj.cls.__name__} (not a repository function)")
        fv = FnVal(ref, None, None, cls)
        return self.decorate_method(st, fv, obj)

    def property_accessor(self, st, cls, name, which):
        """The getter (which=0) / setter (which=1) of a property defined by `name = property(fget, fset)` in the body
        of repository class `cls` (source.class_property_assign), as an unbound FnVal; None if there is none."""
        m = SRC.module_of_real(cls.__module__)
        if m is None:
            return None
        pa = SRC.class_property_assign(m, cls.__qualname__, name)
        if pa is None or pa[which] is None:
            return None
        node = pa[which]
        if isinstance(node, ast.Lambda):
            fv = self.e_Lambda(st, node, Frame(None, m))
            fv.ref.qualname = f"{cls.__qualname__}.{name}.<lambda@{node.lineno}>"
            return fv
        ref = SRC.class_member(m, cls.__qualname__, node.id)
        if ref is None:
            raise Unsupported(f"property {cls.__qualname__}.{name}: accessor {node.id} is not a function of the class body")
        return FnVal(ref, None, None, cls)

    def decorate_method(self, st, fv: FnVal, obj):
        """Apply the decorators of a method definition (e.g. `_call_modified`), then bind."""
        node = fv.ref.node
        out = fv
        for d in reversed(node.decorator_list):
            ds = ast.unparse(d)
            if ds in ("staticmethod",):
                return out
            if ds in ("classmethod",):
                # a classmethod reached through an SObj that stands for the CLASS itself (its class attributes are the
                # SObj's fields, e.g. CanvasCache's `cls`): `cls` stays that model object
                return out.bind(obj if getattr(obj, "stands_for_class", False) else obj.cls)
            if ds in ("property", "functools.cached_property", "typing.final", "abc.abstractmethod") or ds.endswith(".setter"):
                continue
            fr = Frame(None, fv.ref.mod)
            dv = self.eval(st, d, fr)
            out = self.call(st, dv, [out])
            if not isinstance(out, FnVal):
                raise Unsupported(f"decorator {ds} did not return a function")
            out.defcls = fv.defcls
        return out.bind(obj)

    def setattr(self, st, obj, name, value, fr=None):
        obj = st.force(obj)
        if isinstance(obj, SObj):
            if name in obj.fields and name in getattr(obj.shape, "fields", {}):
                self.task.on_field_write(self, st, obj, name, value)
                obj.fields[name] = value
                return
            cls, ref = SRC.mro_lookup(obj.cls, name, "setter")
            if cls is not None and ref is not None and ref.role == "setter":
                self.call_fnval(st, FnVal(ref, None, obj, cls), [value], {})
                return
            if cls is not None and ref is None and isinstance(inspect.getattr_static(obj.cls, name, None), property):
                acc = self.property_accessor(st, cls, name, 1)
                if acc is not None:
                    self.call_fnval(st, acc.bind(obj), [value], {})
                    return
                if acc is None and self.property_accessor(st, cls, name, 0) is not None:
                    raise PyRaise(SExc(AttributeError, (f"property {name} has no setter",)))
                m = SRC.module_of_real(cls.__module__)
                if m is not None and SRC.class_has_property(m, cls.__qualname__, name):
                    raise PyRaise(SExc(AttributeError, (f"property {name} has no setter",)))
            self.task.on_field_write(self, st, obj, name, value)
            obj.fields[name] = value
            return
        if isinstance(obj, SOpaque):
            return self.task.opaque_setattr(self, st, obj, name, value)
        if isinstance(obj, ModelObj) and hasattr(obj, "py_setattr"):
            return obj.py_setattr(self, st, name, value)  # attribute store on a model object: the model decides
        raise Unsupported(f"attribute assignment on {type(obj).__name__}")

    def eval_index(self, st, sl, fr):
        if isinstance(sl, ast.Slice):
            return SSlice(
                self.eval(st, sl.lower, fr) if sl.lower is not None else None,
                self.eval(st, sl.upper, fr) if sl.upper is not None else None,
                self.eval(st, sl.step, fr) if sl.step is not None else None,
            )
        return self.eval(st, sl, fr)

    def e_Subscript(self, st, e, fr):
        obj = self.eval(st, e.value, fr)
        if isinstance(obj, type) or isinstance(obj, typing._GenericAlias if hasattr(typing, "_GenericAlias") else ()):
            return obj  # generic alias subscripting: no run-time effect
        idx = self.eval_index(st, e.slice, fr)
        return self.subscript(st, obj, idx)

    def subscript(self, st, obj, idx):
        from .builtins_model import get_subscript

        return get_subscript(self, st, obj, idx)

    def store_subscript(self, st, obj, idx, v):
        from .builtins_model import set_subscript

        return set_subscript(self, st, obj, idx, v)

    def e_Slice(self, st, e, fr):
        return self.eval_index(st, e, fr)

    def e_Starred(self, st, e, fr):
        raise Unsupported("starred expression")

    # ---- comprehensions (over sequences of concrete length)
    def _comp(self, st, e, fr, elt_fn):
        class _Out(list):
            guarded = False

        out = _Out()
        cfr = Frame(fr.fn, fr.mod, parent=fr)
        cfr.self_obj = fr.self_obj

        guards = []  # (seqs.GuardedSeq) the membership guards of the candidates being visited

        def rec(gi):
            if gi == len(e.generators):
                if guards:
                    try:
                        v = elt_fn(cfr)
                    except PyRaise as pr:
                        raise Unsupported(f"element expression of a comprehension over a collection with symbolic membership raises {pr.exc.cls.__name__}") from None
                    out.append((both(*guards), v))
                else:
                    out.append(elt_fn(cfr))
                return
            g = e.generators[gi]
            seq = self.iter_view(st, st.force(self.eval(st, g.iter, cfr)))
            if isinstance(seq, Q.GuardedSeq):
                # a collection with symbolic membership over a concrete universe: every candidate is visited, the
                # results carry the guard "is a member (and passes the `if` clauses)" -- see seqs.GuardedSeq
                if gi != 0 or len(e.generators) != 1:
                    raise Unsupported("nested comprehension over a collection with symbolic membership")
                for gd, v in seq.items:
                    self.assign_target(st, g.target, v, cfr)
                    conds = [gd]
                    for c in g.ifs:
                        cv = self.eval(st, c, cfr)
                        conds.append(Q.GuardedSeq.truth_formula(cv))
                    guards.append(both(*conds))
                    try:
                        rec(gi + 1)
                    except Unsupported:
                        # the element expression raises for this candidate: harmless when the candidate cannot be a
                        # member on this path (e.g. a candidate of another type than the members); otherwise whether
                        # CPython reaches it depends on the iteration order and on short-circuiting: not modelled
                        if st.branch(guards[-1]):
                            raise
                    finally:
                        guards.pop()
                out.guarded = True
                return
            n = Q.seq_len(seq)
            if not isinstance(n, int):
                raise _SymComp(seq)
            for i in range(n):
                self.assign_target(st, g.target, Q.seq_get(seq, i), cfr)
                if all(self.truth(st, self.eval(st, c, cfr)) for c in g.ifs):
                    rec(gi + 1)

        rec(0)
        return out

    def _sym_comp(self, st, e, fr, seq):
        """Comprehension `[elt for target in seq]` over a sequence of symbolic length (single `for`,
        no `if`): a lazily evaluated sequence. Assumes `elt` is pure (no side effects, cannot raise)."""
        if len(e.generators) != 1:
            raise Unsupported("comprehension over a sequence of symbolic length (only a single `for` is modelled)")
        g = e.generators[0]
        n = Q.seq_len(seq)
        if g.ifs:
            return self._sym_filter(st, e, fr, seq)
        names = {x.id for x in ast.walk(g.target) if isinstance(x, ast.Name)}
        uses_target = any(isinstance(x, ast.Name) and x.id in names for x in ast.walk(e.elt))

        # the elements are evaluated on demand: a versioned model object (a dict with symbolic keys) that `elt` reads
        # must still hold the value it had when the comprehension was built, else the lazy reading would differ from
        # CPython's eager one -> Unsupported
        versions = []
        for nm in sorted({x.id for x in ast.walk(e) if isinstance(x, ast.Name)}):
            try:
                ov = fr.lookup(nm)
            except PyRaise:
                continue
            if isinstance(ov, ModelObj) and hasattr(ov, "py_version"):
                versions.append((nm, ov, ov.py_version()))

        def getter(i):
            for nm, ov, ver in versions:
                if ov.py_version() is not ver:
                    raise Unsupported(f"comprehension over a sequence of symbolic length reads `{nm}`, which was mutated after the comprehension was built")
            cfr = Frame(fr.fn, fr.mod, parent=fr)
            cfr.self_obj = fr.self_obj
            self.assign_target(V.cur(), g.target, Q.seq_get(seq, i), cfr)
            return self.eval(V.cur(), e.elt, cfr)

        r = SSeq(n, getter, None, None, "comp")
        r.lazy = True
        r.comp_over = seq.seq if isinstance(seq, LRef) else seq  # provenance (pyvc.fmap: pairs computed from m.items())
        h = getattr(self.task.c, "comprehension_sum", None)
        if h is not None:
            sv = h(self, st, e, fr, seq)
            if sv is not None:
                r.psum = lambda k, sv=sv: sv(k)
        if r.psum is None and isinstance(e.elt, ast.Name) and isinstance(g.target, ast.Tuple) and all(isinstance(x, ast.Name) for x in g.target.elts):
            # `x_c for (x_0, .., x_k) in seq` over a sequence of int tuples: its partial sums are, by definition,
            # the prefix sums of component c of seq (seqs.comp_psum)
            tn = [x.id for x in g.target.elts]
            base = seq.seq if isinstance(seq, LRef) else seq
            if tn.count(e.elt.id) == 1 and isinstance(base, SSeq) and isinstance(base.shape, S.Tup) and len(base.shape.items) == len(tn):
                c = tn.index(e.elt.id)
                if isinstance(base.shape.items[c], S._Int):
                    r.psum = lambda k, base=base, c=c: Q.comp_psum(base, c, k)
        if not uses_target:
            cfr = Frame(fr.fn, fr.mod, parent=fr)
            cfr.self_obj = fr.self_obj
            serial0 = Q.LRef.serial_counter
            r.const_elt = self.eval(st, e.elt, cfr)
            r.getter = lambda i, v=r.const_elt: v
            if type(r.const_elt) is LRef and r.const_elt.serial > serial0:
                # the element expression builds a new list on every evaluation: `[[c] * w for _ in range(h)]` is a
                # nested list of h distinct rows with equal content -> rows held by value (see seqs.fresh_seq)
                row = Q.row_value(r.const_elt)
                r.const_elt = row
                r.shape = S.ListOf(getattr(row, "shape", None))
                r.getter = lambda i, v=row: v
        return r

    def _sym_filter(self, st, e, fr, seq):
        """`[x for x in seq if pred(x)]` over a sequence of symbolic length, elt == target -- or, for a tuple target
        of plain names, elt == one of them (`[k for k, v in d.items() if v == c]`: that component of the selected
        elements).  Model of a filter: a subsequence (strictly increasing index map) containing exactly the
        elements satisfying the predicate, in order. Assumes pred is pure."""
        g = e.generators[0]
        tnames = [x.id for x in ast.walk(g.target) if isinstance(x, ast.Name)]
        # `[x for x in seq if ..]`, and `[k for k, v in seq if ..]`: the element is one of the names the target binds
        # (a projection of the selected element of seq); anything else is modelled as the argument of sum() only
        if not (isinstance(e.elt, ast.Name) and e.elt.id in tnames and tnames.count(e.elt.id) == 1
                and (isinstance(g.target, ast.Name) or (isinstance(e, ast.ListComp) and isinstance(g.target, ast.Tuple) and all(isinstance(x, ast.Name) for x in g.target.elts)))):
            # (a generator expression over a tuple target keeps the sum() model: `sum(w for w, o in seq if ..)`)
            return self._sym_filter_sum(st, e, fr, seq)
        n = Q.seq_len(seq)
        base = Q.to_sseq(seq)

        def project(x):
            if isinstance(g.target, ast.Name):
                return x
            return x[[t.id for t in g.target.elts].index(e.elt.id)]

        def pred(x):
            cfr = Frame(fr.fn, fr.mod, parent=fr)
            cfr.self_obj = fr.self_obj
            self.assign_target(V.cur(), g.target, x, cfr)
            r = True
            for c in g.ifs:
                v = self.eval(V.cur(), c, cfr)
                r = both(r, v if isinstance(v, (bool, SBool)) else self.truth(V.cur(), v))
            return r

        m = st.fresh_int("flen")
        idx = z3.Function(st.fresh_name("fidx"), z3.IntSort(), z3.IntSort())
        pos = z3.Function(st.fresh_name("fpos"), z3.IntSort(), z3.IntSort())
        st.assume(both(V._cmp(">=", m, 0), V._cmp("<=", m, n)))
        zi = lambda t: mk_int(idx(V._z(t)))  # noqa: E731
        zp = lambda t: mk_int(pos(V._z(t)))  # noqa: E731
        st.assume(V.forall(0, m, lambda j: both(zi(j) >= 0, zi(j) < n, pred(base.get(zi(j))), zp(zi(j)) == j)))
        st.assume(V.forall(0, m - 1, lambda j: zi(j) < zi(j + 1)))
        st.assume(V.forall(0, n, lambda i: V.implies(pred(base.get(i)), both(zp(i) >= 0, zp(i) < m, zi(zp(i)) == i))))
        shape = base.shape
        if isinstance(g.target, ast.Tuple):
            k = [t.id for t in g.target.elts].index(e.elt.id)
            shape = shape.items[k] if isinstance(shape, S.Tup) and len(shape.items) == len(g.target.elts) else None
        r = SSeq(m, lambda j: project(base.get(zi(j))), shape, None, "filter")
        r.filter_of = (base, zi, zp, pred)
        return r

    def _sym_filter_sum(self, st, e, fr, seq):
        """`(elt(x) for x in seq if cond(x))` over a sequence of symbolic length, usable only as the argument
        of sum(): the sum is G(len(seq)) for a fresh prefix-sum function G defined by
            G(0) = 0,   G(k+1) = G(k) + (elt(seq[k]) if cond(seq[k]) else 0)
        (CPython: sum() of the filtered generator, integers).  The defining equations are instantiated by
        `unfold(k)`; the record (G, n, term) is appended to st.ghost["gen_sums"] so that a contract can relate G
        to a spec function (pointwise-equal summands, lemma `pointwise-equal-prefix-sums`).  Assumes elt and cond
        are pure and cannot raise.  Reading an element of the generator is Unsupported."""
        g = e.generators[0]
        n = Q.seq_len(seq)
        base = Q.to_sseq(seq)
        G = z3.Function(st.fresh_name("gensum"), z3.IntSort(), z3.IntSort())

        def term(k):
            cfr = Frame(fr.fn, fr.mod, parent=fr)
            cfr.self_obj = fr.self_obj
            self.assign_target(V.cur(), g.target, base.get(k), cfr)
            c = True
            for cnd in g.ifs:
                v = self.eval(V.cur(), cnd, cfr)
                c = both(c, v if isinstance(v, (bool, SBool)) else self.truth(V.cur(), v))
            v = self.eval(V.cur(), e.elt, cfr)
            if not V.is_num(v) or isinstance(v, SBool):
                raise Unsupported("sum of a filtered generator over non-integer elements")
            return V.ite(c, v, 0)

        def unfold(k):
            s_ = V.cur()
            zk = V._z(k)
            s_.assume(G(z3.IntVal(0)) == 0)
            s_.assume(z3.Implies(z3.And(zk >= 0, zk < V._z(n)), G(zk + 1) == G(zk) + V._z(term(k))))

        def getter(i):
            raise Unsupported("element of a filtered generator over a sequence of symbolic length (only sum() is modelled)")

        r = SSeq(st.fresh_int("flen"), getter, None, lambda k: mk_int(G(V._z(n))), "filtersum")
        r.sum = lambda: mk_int(G(V._z(n)))
        st.assume(G(z3.IntVal(0)) == 0)
        bound = getattr(seq.seq if isinstance(seq, LRef) else seq, "max_len", None)
        if not isinstance(bound, int) and st.capture is None and not isinstance(n, int):
            r0, _m = st._check(V._z(n) > 8, 500)
            bound = 8 if r0 == z3.unsat else None
        if isinstance(bound, int) and bound <= 64:
            for j in range(bound):  # the length is symbolic but bounded by a small constant: unfold G completely
                unfold(j)
        rec = View({"G": lambda k: mk_int(G(V._z(k))), "n": n, "term": term, "unfold": unfold, "node": e})
        st.ghost.setdefault("gen_sums", []).append(rec)
        return r

    def e_ListComp(self, st, e, fr):
        r = self.task.comprehension(self, st, e, fr)
        if r is not NotImplemented:
            return r
        try:
            out = self._comp(st, e, fr, lambda c: self.eval(st, e.elt, c))
            if out.guarded:
                raise Unsupported("list comprehension over a collection with symbolic membership")
            return LRef(tuple(out))
        except _SymComp as sc:
            return LRef(self._sym_comp(st, e, fr, sc.seq))

    def e_GeneratorExp(self, st, e, fr):
        r = self.task.comprehension(self, st, e, fr)
        if r is not NotImplemented:
            return r
        try:
            out = self._comp(st, e, fr, lambda c: self.eval(st, e.elt, c))
            if out.guarded:
                return Q.GuardedSeq(out)  # generator over a collection with symbolic membership: folds only (all / any)
            return tuple(out)
        except _SymComp as sc:
            return self._sym_comp(st, e, fr, sc.seq)

    def e_SetComp(self, st, e, fr):
        out = self._comp(st, e, fr, lambda c: self.eval(st, e.elt, c))
        if out.guarded:
            raise Unsupported("set comprehension over a collection with symbolic membership")
        return frozenset(out)

    def e_DictComp(self, st, e, fr):
        out = self._comp(st, e, fr, lambda c: (self.eval(st, e.key, c), self.eval(st, e.value, c)))
        if out.guarded:
            raise Unsupported("dict comprehension over a collection with symbolic membership")
        return DRef(dict(out))

    # ---- calls
    def e_Call(self, st, e, fr):
        if self._is_dropped_call(e):
            return None
        # super()
        if isinstance(e.func, ast.Name) and e.func.id == "super" and not e.args:
            f = fr
            while f is not None and (f.fn is None or f.fn.defcls is None):
                f = f.parent
            if f is None:
                raise Unsupported("super() outside a method")
            return SuperProxy(f.self_obj, f.fn.defcls)
        fn = self.eval(st, e.func, fr)
        args = []
        for a in e.args:
            if isinstance(a, ast.Starred):
                v = self.iter_view(st, st.force(self.eval(st, a.value, fr)))
                if isinstance(v, LRef):
                    v = v.seq
                n = Q.seq_len(v)
                if not isinstance(n, int):
                    if len(e.args) == 1 and not e.keywords:
                        args.append(StarArgs(v))  # f(*seq) with a sequence of symbolic length: opaque callees only
                        continue
                    if fn in (max, min) and not e.keywords and a is e.args[-1] and not any(isinstance(x, ast.Starred) for x in e.args[:-1]):
                        args.append(StarArgs(v))  # max(a, b, *seq) / min(...): modelled in builtins_model._extremum_star
                        continue
                    raise Unsupported("*args of symbolic length")
                args.extend(Q.seq_get(v, i) for i in range(n))
            else:
                args.append(self.eval(st, a, fr))
        kwargs = {}
        for k in e.keywords:
            if k.arg is None:
                d = self.eval(st, k.value, fr)
                kwargs.update(d.d if isinstance(d, DRef) else d)
            else:
                kwargs[k.arg] = self.eval(st, k.value, fr)
        return self.call(st, fn, args, kwargs, site=f"{fr.mod.relpath}:{e.lineno}")
