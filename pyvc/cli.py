from __future__ import annotations

import argparse
import json
import os
import sys

ROOT = os.path.dirname(os.path.dirname(os.path.abspath(__file__)))
sys.path.insert(0, ROOT)


def manifest_levels():
    try:
        m = json.load(open(os.path.join(ROOT, "MANIFEST.json"), encoding="utf-8"))
        return {c["property_id"]: c["level_claimed"]["category"] for c in m["checks"]}
    except Exception:  # noqa: BLE001
        return {}


def main():
    ap = argparse.ArgumentParser()
    sub = ap.add_subparsers(dest="cmd", required=True)
    c = sub.add_parser("check")
    c.add_argument("pid")
    c.add_argument("--tier", default=os.environ.get("VERIF_TIER", "quick"))
    c.add_argument("--only", action="append")
    c.add_argument("--jobs", type=int)
    c.add_argument("--no-write", action="store_true")
    r = sub.add_parser("replay")
    r.add_argument("path")
    a = sub.add_parser("all")
    a.add_argument("--tier", default="quick")
    args = ap.parse_args()
    seed = int(os.environ.get("VERIF_SEED", "0") or 0)
    from pyvc import runner

    if args.cmd == "check":
        lv = manifest_levels().get(args.pid, "other")
        code, lines, _ev = runner.check_property(args.pid, args.tier, seed, lv, args.jobs, args.only, write=not args.no_write)
        print("\n".join(lines))
        sys.exit(code)
    if args.cmd == "all":
        worst = 0
        for pid in sorted(manifest_levels()):
            code, lines, _ev = runner.check_property(pid, args.tier, seed, manifest_levels()[pid])
            print("\n".join(lines))
            worst = max(worst, code)
        sys.exit(worst)
    if args.cmd == "replay":
        rp = json.load(open(args.path, encoding="utf-8"))
        runner.load_contracts()
        if rp.get("kind") == "deductive":
            c = runner.REGISTRY[rp["function"]]
            out = runner.native_replay(c, runner._unjson(rp["model"]))
            print(json.dumps(out, indent=1, default=repr))
            sys.exit(1 if out.get("outcome") == "confirmed" else 0)
        import importlib

        b = importlib.import_module(f"bounded.{rp['property']}")
        out = b.replay(rp["check"], runner._unjson(rp["case"]))
        print(json.dumps(out, indent=1, default=repr))
        sys.exit(1 if out.get("outcome") == "confirmed" else 0)


if __name__ == "__main__":
    main()
