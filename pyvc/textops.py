"""Models of str / bytes operations on abstract texts (pyvc/text.py) that the byte-level parser of
urwid/vterm.py uses: `startswith`, `split`, `lstrip`, `partition`, `needle in <constant>`, `int(text)`,
`bytes(list of ints)`, `bytearray`, `bytes.decode(codec, errors)`.

Every model is an ASSUMED contract on the Python runtime.  Each one states only facts that hold for CPython's
result (it may state fewer: a weaker model is a sound over-approximation -- the verified code is then shown safe
for more results than CPython can produce).  `xcheck_textops()` compares each model with CPython on concrete
values: the facts the model asserts are evaluated on CPython's own result.

Conventions: `t` is a text (SText or derived), constants are Python str / bytes; a formula is a bool / SBool."""
from __future__ import annotations

import z3

from . import seqs as Q
from . import values as V
from .engine import PyRaise, SExc
from .seqs import LRef, ModelObj, SSeq
from .text import SConcat, SConst, SText, SView, as_text, elem_eq, text_eq
from .values import SInt, Sym, Unsupported, both, either, implies, mk_bool, mk_int, neg


def _raise(cls, msg=""):
    raise PyRaise(SExc(cls, (msg,), site="builtin"))


def _kind_of(x):
    if isinstance(x, str):
        return "str"
    if isinstance(x, (bytes, bytearray)):
        return "bytes"
    return getattr(x, "kind", None)


# --------------------------------------------------------------------------------------------- x in <constant>


def substrings(const):
    """All distinct substrings of a str / bytes constant, the empty one included, shortest first."""
    n = len(const)
    seen, out = set(), []
    for ln in range(n + 1):
        for i in range(n - ln + 1):
            w = const[i : i + ln]
            if w not in seen:
                seen.add(w)
                out.append(w)
    return out


def in_const(needle, hay):
    """`needle in hay` for a text needle of ANY length and a str / bytes constant `hay` (CPython: substring test;
    the empty needle is in everything): needle equals one of the finitely many substrings of the constant."""
    t = as_text(needle)
    if t is None or t.kind != _kind_of(hay):
        raise Unsupported("'in' between a text and a constant of the other kind")
    return either(False, *[text_eq(t, w) for w in substrings(hay)])


# --------------------------------------------------------------------------------------------- startswith


def text_startswith(t, prefix):
    """t.startswith(prefix): prefix a constant, a text of concrete length, or a tuple of those."""
    if isinstance(prefix, tuple):
        return either(False, *[text_startswith(t, p) for p in prefix])
    p = as_text(prefix)
    if p is None or p.kind != t.kind:
        _raise(TypeError, "startswith first arg must be str/bytes or a tuple of them, of the same kind")
    k = p.length
    if not isinstance(k, int):
        raise Unsupported("startswith with a prefix of symbolic length")
    return both(V._cmp(">=", t.length, k) if V.is_sym(t.length) else t.length >= k, *[elem_eq(t.get(j), p.get(j)) for j in range(k)])


# --------------------------------------------------------------------------------------------- split


def text_split(st, t, sep):
    """t.split(sep) for a one-element constant separator.  Result: a list of k >= 1 parts, part j being the view
    t[off(j) : off(j) + ln(j)] with
        off(0) = 0;   off(j+1) = off(j) + ln(j) + 1 and t[off(j) + ln(j)] = sep   for j < k - 1;
        off(k-1) + ln(k-1) = len(t);    0 <= ln(j);    k <= len(t) + 1
    (instantiated at every index that is read).  NOT stated (weaker than CPython, sound): that no part contains
    the separator."""
    s = as_text(sep)
    if s is None or s.kind != t.kind:
        _raise(TypeError, "a bytes-like object is required / must be str")
    if not (isinstance(s.length, int) and s.length == 1):
        if isinstance(s.length, int) and s.length == 0:
            _raise(ValueError, "empty separator")
        raise Unsupported("split with a separator that is not a single element")
    sep_e = s.get(0)
    n = t.length
    k = st.fresh_int("nparts")
    name = st.fresh_name("split")
    off = z3.Function(f"{name}$off", z3.IntSort(), z3.IntSort())
    ln = z3.Function(f"{name}$len", z3.IntSort(), z3.IntSort())
    zn = V._z(n)
    st.assume(z3.And(k.e >= 1, k.e <= zn + 1, off(z3.IntVal(0)) == 0, off(k.e - 1) + ln(k.e - 1) == zn, ln(k.e - 1) >= 0, off(k.e - 1) >= 0))

    def getter(j):
        zj = V._z(j)
        o, l_ = off(zj), ln(zj)
        s_ = V.cur()
        s_.assume(z3.Implies(z3.And(zj >= 0, zj < k.e), z3.And(o >= 0, l_ >= 0, o + l_ <= zn, o >= zj)))
        nxt = t.get(mk_int(o + l_))
        s_.assume(z3.Implies(z3.And(zj >= 0, zj < k.e - 1), z3.And(V._zb(elem_eq(nxt, sep_e)), off(zj + 1) == o + l_ + 1, o + l_ < zn)))
        return t.slice(mk_int(o), mk_int(o + l_))

    r = SSeq(k, getter, None, None, "split")
    r.split_of = (t, sep)
    return LRef(r)


# --------------------------------------------------------------------------------------------- lstrip


def text_lstrip(st, t, chars):
    """t.lstrip(chars) for a constant set of elements: the view t[k:] with 0 <= k <= len(t) and, if k < len(t),
    t[k] not in chars.  NOT stated (weaker, sound): that the k stripped elements are all in chars."""
    if chars is None or _kind_of(chars) != t.kind or isinstance(chars, Sym):
        raise Unsupported("lstrip without a constant argument of the text's kind")
    k = st.fresh_int("stripped")
    n = t.length
    st.assume(z3.And(k.e >= 0, k.e <= V._z(n)))
    first = t.get(k)
    keep = both(True, *[neg(elem_eq(first, SConst(chars[i : i + 1]).get(0))) for i in range(len(chars))])
    st.assume(z3.Implies(k.e < V._z(n), V._zb(keep)))
    return t.slice(k, n)


# --------------------------------------------------------------------------------------------- partition


def text_partition(st, t, sep):
    """t.partition(sep) for a one-element constant separator: either (t[:k], sep, t[k+1:]) with t[k] = sep, or
    (t, empty, empty).  NOT stated (weaker, sound): that k is the FIRST occurrence / that there is none."""
    s = as_text(sep)
    if s is None or s.kind != t.kind:
        _raise(TypeError, "must be str / a bytes-like object is required")
    if not (isinstance(s.length, int) and s.length == 1):
        raise Unsupported("partition with a separator that is not a single element")
    empty = "" if t.kind == "str" else b""
    if st.fork(2) == 1:
        return (t, empty, empty)
    k = st.fresh_int("sep_at")
    n = t.length
    st.assume(z3.And(k.e >= 0, k.e < V._z(n)))
    st.assume(elem_eq(t.get(k), s.get(0)))
    return (t.slice(0, k), sep, t.slice(k + 1, n))


# --------------------------------------------------------------------------------------------- int(text)

MINUS = 0x2D


def text_int(st, t):
    """int(t) for a bytes / str text (base 10).  CPython raises ValueError for anything that is not an optionally
    signed decimal numeral (possibly with surrounding whitespace / underscores), and for numerals beyond the
    interpreter's digit limit -- never another exception for a bytes / str argument.  Model: either ValueError, or
    an integer n about which exactly this is stated:  len(t) >= 1,  and  n < 0  only if t contains a minus sign
    (some index i0 with t[i0] = '-').  The same text read twice parses to the same outcome here only by accident;
    nothing relies on it."""
    if st.fork(2) == 1:
        _raise(ValueError, "invalid literal for int() with base 10")
    n = st.fresh_int("parsed")
    i0 = st.fresh_int("minus_at")
    ln = V._z(t.length)
    st.assume(ln >= 1)
    e = t.get(i0)
    minus = elem_eq(e, MINUS) if t.kind == "bytes" else elem_eq(e, SConst("-").get(0))
    st.assume(z3.Implies(n.e < 0, z3.And(i0.e >= 0, i0.e < ln, V._zb(minus))))
    return n


# --------------------------------------------------------------------------------------------- bytes(...) / bytearray


def bytes_of_ints(st, items):
    """bytes([i0, i1, ...]) for a sequence of concrete length: ValueError unless every item is in range(256)."""
    items = list(items)
    for x in items:
        if not V.is_num(x) or isinstance(x, (V.SReal, float)):
            _raise(TypeError, "an integer is required")
    ok = both(True, *[both(V._cmp(">=", x, 0) if V.is_sym(x) else x >= 0, V._cmp("<=", x, 255) if V.is_sym(x) else x <= 255) for x in items])
    st.partial(ok, ValueError, "bytes must be in range(0, 256)")
    if all(isinstance(x, int) for x in items):
        return bytes(items)
    t = SText("bytes", len(items), st.fresh_name("bytes"))
    for j, x in enumerate(items):
        st.assume(t.f(z3.IntVal(j)) == V._z(x))
    t.items = tuple(items)
    return t


def _int_items(ip, st, x):
    x = st.force(x)
    v = ip.iter_view(st, x)
    if isinstance(v, LRef):
        v = v.seq
    n = Q.seq_len(v)
    if not isinstance(n, int):
        raise Unsupported("bytes() / bytearray() of a sequence of symbolic length")
    return [Q.seq_get(v, j) for j in range(n)]


def b_bytes(ip, st, *args, **kwargs):
    # a contract file's own model of bytes(...) (hook `call_real`, e.g. contracts/C05_input.py) keeps precedence
    r = ip.task.call_real(ip, st, bytes, list(args), kwargs)
    if r is not NotImplemented:
        return r
    if len(args) == 1 and not kwargs and not isinstance(args[0], (str, bytes, int)) and (isinstance(args[0], (LRef, tuple, SSeq))):
        return bytes_of_ints(st, _int_items(ip, st, args[0]))
    if len(args) == 1 and not kwargs and getattr(args[0], "is_text", False) and args[0].kind == "bytes":
        return args[0]
    if len(args) == 1 and isinstance(args[0], SByteArray):
        return args[0].text
    if any(isinstance(a, Sym) for a in args) or any(isinstance(a, Sym) for a in kwargs.values()):
        raise Unsupported("bytes() with symbolic arguments")
    try:
        return bytes(*args, **kwargs)
    except Exception as ex:  # noqa: BLE001
        _raise(type(ex), str(ex))


class SByteArray(ModelObj):
    """A `bytearray`: a mutable object whose content is a bytes text (reference semantics; the content value is
    immutable and replaced on mutation).  Modelled: append(int) (ValueError unless in range(256)), `+` with bytes /
    bytearray (a new bytearray), len, truth, decode (as bytes.decode), iteration is not modelled."""

    def __init__(self, text):
        self.text = text

    def py_truth(self, st):
        n = self.text.length
        return n > 0 if isinstance(n, int) else V._cmp(">", n, 0)

    def py_len(self, st):
        return self.text.length

    def py_getitem(self, ip, st, idx):
        from .builtins_model import get_subscript

        r = get_subscript(ip, st, as_text(self.text), idx)
        return SByteArray(r) if getattr(r, "is_text", False) else r

    def py_call(self, ip, st, name, args, kwargs):
        from .builtins_model import call_method

        if name == "append" and len(args) == 1 and not kwargs:
            x = st.force(args[0])
            if not V.is_num(x):
                _raise(TypeError, "an integer is required")
            st.partial(both(V._cmp(">=", x, 0) if V.is_sym(x) else x >= 0, V._cmp("<=", x, 255) if V.is_sym(x) else x <= 255), ValueError, "byte must be in range(0, 256)")
            self.text = SConcat(as_text(self.text), as_text(bytes_of_ints(st, [x])))
            return None
        if name == "decode":
            return call_method(ip, st, as_text(self.text), "decode", args, kwargs)
        raise Unsupported(f"bytearray.{name}")

    def py_binop(self, ip, st, op, other, reflected):
        import ast

        if not isinstance(op, ast.Add):
            return NotImplemented
        o = other.text if isinstance(other, SByteArray) else other
        ot = as_text(o)
        if ot is None or ot.kind != "bytes":
            _raise(TypeError, "can't concat to bytearray")
        mine = as_text(self.text)
        if reflected:
            # bytes + bytearray -> bytes
            return SConcat(ot, mine)
        return SByteArray(SConcat(mine, ot))

    def py_concretize(self, model):
        from .text import concretize_text

        t = self.text
        return bytearray(t if isinstance(t, bytes) else concretize_text(model, t)) if isinstance(t, (bytes, SText)) and not isinstance(t, (SConcat, SView)) else "<bytearray>"


def b_bytearray(ip, st, *args, **kwargs):
    r = ip.task.call_real(ip, st, bytearray, list(args), kwargs)
    if r is not NotImplemented:
        return r
    if not args and not kwargs:
        return SByteArray(b"")
    if len(args) == 1 and not kwargs:
        a = st.force(args[0])
        if isinstance(a, bytes):
            return SByteArray(a)
        if getattr(a, "is_text", False) and a.kind == "bytes":
            return SByteArray(a)
        if isinstance(a, (LRef, tuple, SSeq)):
            return SByteArray(bytes_of_ints(st, _int_items(ip, st, a)))
    raise Unsupported("bytearray() of these arguments")


# --------------------------------------------------------------------------------------------- decode with an error handler


def _codec_is_utf8(codec):
    return isinstance(codec, str) and codec.lower().replace("_", "-") in ("utf-8", "utf8")


def utf8_scalar(b, n):
    """(well-formed, code point) of the first n bytes b[0..n-1] read as ONE UTF-8 sequence (Unicode 15, table 3-7:
    no overlong forms, no surrogates, nothing above U+10FFFF).  Dual use: plain ints or symbolic ints."""
    def cont(x, lo=0x80, hi=0xBF):
        return both(lo <= x, x <= hi)

    if n == 1:
        return both(0 <= b[0], b[0] <= 0x7F), b[0]
    if n == 2:
        return both(0xC2 <= b[0], b[0] <= 0xDF, cont(b[1])), (b[0] - 0xC0) * 64 + (b[1] - 0x80)
    if n == 3:
        second = either(both(b[0] == 0xE0, cont(b[1], lo=0xA0)), both(b[0] == 0xED, cont(b[1], hi=0x9F)),
                        both(0xE1 <= b[0], b[0] <= 0xEF, neg(b[0] == 0xED), cont(b[1])))
        return both(second, cont(b[2])), (b[0] - 0xE0) * 4096 + (b[1] - 0x80) * 64 + (b[2] - 0x80)
    if n == 4:
        second = either(both(b[0] == 0xF0, cont(b[1], lo=0x90)), both(b[0] == 0xF4, cont(b[1], hi=0x8F)), both(0xF1 <= b[0], b[0] <= 0xF3, cont(b[1])))
        return both(second, cont(b[2]), cont(b[3])), (b[0] - 0xF0) * 262144 + (b[1] - 0x80) * 4096 + (b[2] - 0x80) * 64 + (b[3] - 0x80)
    raise ValueError(n)


def decode_lenient(st, t, errors):
    """bytes.decode('utf-8', 'ignore' | 'replace'): never raises; yields a str of at most len(t) characters
    (every character consumes at least one byte); with 'replace' a non-empty input gives a non-empty result; and an
    input that is exactly ONE well-formed UTF-8 sequence of 1..4 bytes (utf8_scalar) decodes to exactly the one
    character with that code point.  Nothing else is stated about the content.
    The result is a fresh str text tagged `decoded_from = t`, `decode_errors = errors`."""
    from .text import char_ord

    d = SText("str", st.fresh_int("decoded_len"), st.fresh_name("decoded"))
    ln = V._z(t.length)
    st.assume(z3.And(d.length.e >= 0, d.length.e <= ln))
    if errors == "replace":
        st.assume(z3.Implies(ln > 0, d.length.e > 0))
    bs = [t.get(j) for j in range(4)]
    first = char_ord(d.get(0))
    for n in (1, 2, 3, 4):
        wf, cp = utf8_scalar(bs, n)
        st.assume(implies(both(mk_bool(ln == n), wf), both(mk_bool(d.length.e == 1), first == cp)))
    d.decoded_from = t
    d.decode_errors = errors
    return d


# --------------------------------------------------------------------------------------------- rjust / ljust


def text_just(t, width, fill=None, right=True):
    """t.rjust(width[, fill]) / t.ljust(width[, fill]) (CPython: t itself when width <= len(t), else t padded on the
    left / right with width - len(t) copies of the one-element `fill`, default a space): the derived text
    fill * max(width - len(t), 0) + t   (resp. t + fill * ...).  `fill` must be a one-element constant of t's kind
    (CPython raises TypeError otherwise).  Dual use (plain ints give plain elements): see xcheck_textops."""
    from .text import SRepeat

    t = as_text(t)
    f = as_text(fill if fill is not None else (" " if t.kind == "str" else b" "))
    if f is None or f.kind != t.kind or not (isinstance(f.length, int) and f.length == 1):
        if f is not None and isinstance(f.length, int):
            _raise(TypeError, "The fill character must be exactly one character long")
        raise Unsupported("rjust / ljust with a fill that is not a one-element constant")
    pad = SRepeat(f, width - t.length)
    if isinstance(t.length, int) and t.length == 0:
        return pad
    return SConcat(pad, t) if right else SConcat(t, pad)


# --------------------------------------------------------------------------------------------- dispatch from call_method


def text_method(ip, st, recv, name, args, kwargs):
    """Methods of a text receiver modelled here; NotImplemented for the others."""
    if name == "startswith" and len(args) == 1 and not kwargs:
        return text_startswith(recv, args[0])
    if name == "split" and len(args) == 1 and not kwargs:
        return text_split(st, recv, args[0])
    if name == "lstrip" and len(args) == 1 and not kwargs:
        return text_lstrip(st, recv, args[0])
    if name == "partition" and len(args) == 1 and not kwargs:
        return text_partition(st, recv, args[0])
    if name in ("rjust", "ljust") and 1 <= len(args) <= 2 and not kwargs and V.is_num(args[0]) and not isinstance(args[0], V.SReal):
        return text_just(recv, args[0], args[1] if len(args) > 1 else None, right=name == "rjust")
    if name == "decode" and recv.kind == "bytes":
        codec = args[0] if args else kwargs.get("encoding", "utf-8")
        errors = args[1] if len(args) > 1 else kwargs.get("errors", "strict")
        if _codec_is_utf8(codec) and errors in ("ignore", "replace"):
            d = decode_lenient(st, recv, errors)
            h = getattr(getattr(ip.task, "c", None), "decode_model", None)
            if h is not None:
                h(st, recv, d)
            return d
    return NotImplemented


# --------------------------------------------------------------------------------------------- cross-check against CPython


def xcheck_textops():
    """Evaluate every fact the models above assert on CPython's own results, over a small exhaustive scope.
    -> (ok, detail)"""
    import itertools

    bad = []
    n = 0
    alphabet = b"0;-?a"
    texts = [bytes(p) for ln in range(0, 5) for p in itertools.product(alphabet, repeat=ln)]
    # in_const: the substring enumeration is exactly CPython's `in`
    for hay in (b"0123456789;", b"\n\v\f", b"\x00\x7f", b"G8", b"\x18\x1a", b""):
        subs = set(substrings(hay))
        for t in texts + [b"\n", b"\n\v", b"\v\n", b"\x7f", b"G", b"8", b"G8", b"8G", b"12", b"9;", b";9", b"\x18\x1a"]:
            n += 1
            if (t in subs) != (t in hay):
                bad.append(("in", t, hay))
    for t in texts:
        # startswith
        for p in (b"?", b"P", b";", b"0;", b"2;", (b";", b"0;", b"2;"), b""):
            n += 1
            ps = p if isinstance(p, tuple) else (p,)
            model = any(len(t) >= len(q) and all(t[j] == q[j] for j in range(len(q))) for q in ps)
            if model != t.startswith(p):
                bad.append(("startswith", t, p))
        # split: CPython's parts satisfy the stated equations
        parts = t.split(b";")
        n += 1
        k = len(parts)
        off = []
        o = 0
        for part in parts:
            off.append(o)
            o += len(part) + 1
        ok = k >= 1 and k <= len(t) + 1 and off[0] == 0 and off[-1] + len(parts[-1]) == len(t)
        for j in range(k):
            ok = ok and t[off[j] : off[j] + len(parts[j])] == parts[j] and off[j] >= j
            if j < k - 1:
                ok = ok and t[off[j] + len(parts[j])] == ord(";") and off[j] + len(parts[j]) < len(t)
        if not ok:
            bad.append(("split", t))
        # lstrip
        r = t.lstrip(b"0")
        n += 1
        kk = len(t) - len(r)
        if not (0 <= kk <= len(t) and t[kk:] == r and (kk == len(t) or t[kk] not in b"0")):
            bad.append(("lstrip", t))
        # int(): ValueError or a value; negative only with a minus sign; never another exception; empty never parses
        n += 1
        try:
            v = int(t)
            if (v < 0 and MINUS not in t) or len(t) < 1:
                bad.append(("int", t, v))
        except ValueError:
            pass
        except Exception as e:  # noqa: BLE001
            bad.append(("int-raises", t, type(e).__name__))
    for t in (b"1" * 5000, b" 12 ", b"1_0", b"+5", b"-0", b"\xff", b"1e3", "٣".encode()):
        n += 1
        try:
            v = int(t)
            if v < 0 and MINUS not in t:
                bad.append(("int", t[:10], v))
        except ValueError:
            pass
        except Exception as e:  # noqa: BLE001
            bad.append(("int-raises", t[:10], type(e).__name__))
    # str.partition
    for s in ("", ";", "a;b", "0;title;x", "abc", ";;"):
        n += 1
        h, m, tl = s.partition(";")
        if m:
            k = len(h)
            if not (0 <= k < len(s) and s[k] == ";" and s[:k] == h and s[k + 1 :] == tl):
                bad.append(("partition", s))
        elif (h, m, tl) != (s, "", ""):
            bad.append(("partition", s))
    # rjust / ljust: the derived text has CPython's length and elements
    for s in (b"", b"a", b"ab\xe4", "", "x", "xy中"):
        for width in range(-2, 6):
            for fill in (None, b"0" if isinstance(s, bytes) else "0"):
                for right in (True, False):
                    n += 1
                    m = text_just(s, width, fill, right)
                    py = (s.rjust if right else s.ljust)(*([width] if fill is None else [width, fill]))
                    if isinstance(s, str):
                        # str elements are the individuals chr_of(ord(c)) (symbolic): lengths only; elements in the bytes case
                        if m.length != len(py):
                            bad.append(("just-len", s, width, fill, right))
                    elif m.length != len(py) or [m.get(j) for j in range(m.length)] != list(py):
                        bad.append(("just", s, width, fill, right, py))
    # bytes([..]) / bytearray
    for x in (-1, 0, 65, 255, 256):
        n += 1
        try:
            got = bytes([x])
            if not 0 <= x <= 255 or got[0] != x:
                bad.append(("bytes", x))
        except ValueError:
            if 0 <= x <= 255:
                bad.append(("bytes-raises", x))
        ba = bytearray([65])
        try:
            ba.append(x)
            if not 0 <= x <= 255 or bytes(ba) != b"A" + bytes([x]):
                bad.append(("bytearray.append", x))
        except ValueError:
            if 0 <= x <= 255:
                bad.append(("bytearray.append-raises", x))
    if type(bytearray(b"a") + b"b") is not bytearray or type(b"a" + bytearray(b"b")) is not bytes or (bytearray(b"a") + b"b") != b"ab":
        bad.append(("bytearray+bytes",))
    # lenient decoding: never raises, at most one character per byte, 'replace' of a non-empty input is non-empty
    samples = [bytes(p) for ln in range(0, 4) for p in itertools.product((0x41, 0x80, 0xBF, 0xC3, 0xA9, 0xE4, 0xF0, 0xFF), repeat=ln)]
    for b in samples:
        for errors in ("ignore", "replace"):
            n += 1
            try:
                d = b.decode("utf-8", errors)
            except Exception as e:  # noqa: BLE001
                bad.append(("decode-raises", b, errors, type(e).__name__))
                continue
            if len(d) > len(b) or (errors == "replace" and b and not d):
                bad.append(("decode", b, errors, d))
    # one well-formed UTF-8 sequence decodes to exactly its scalar value, under both handlers (utf8_scalar, decode_lenient)
    edge = (0x7F, 0x80, 0x8F, 0x90, 0x9F, 0xA0, 0xBF, 0xC0)
    cases = [(b0,) for b0 in range(256)] + [(b0, b1) for b0 in range(0xC0, 0xE0) for b1 in range(256)]
    cases += [(b0, b1, b2) for b0 in range(0xE0, 0xF0) for b1 in range(256) for b2 in edge]
    cases += [(b0, b1, b2, b3) for b0 in range(0xF0, 0xF6) for b1 in range(256) for b2 in (0x7F, 0x80, 0xBF, 0xC0) for b3 in (0x7F, 0x80, 0xBF, 0xC0)]
    for bs in cases:
        n += 1
        wf, cp = utf8_scalar(list(bs), len(bs))
        raw = bytes(bs)
        try:
            strict = raw.decode("utf-8")
            really = len(strict) == 1
        except UnicodeDecodeError:
            strict, really = None, False
        if bool(wf) != really:
            bad.append(("utf8-well-formed", raw, bool(wf), really))
        elif wf and not (ord(strict) == cp and raw.decode("utf-8", "ignore") == strict and raw.decode("utf-8", "replace") == strict):
            bad.append(("utf8-scalar", raw, cp))
    return (not bad, f"{len(bad)} mismatches: {bad[:4]}" if bad else f"text-operation models agree with CPython on {n} cases")
