"""Contracts (sidecar) and verification tasks."""
from __future__ import annotations

import ast
import inspect
import os
import sys
import time
import traceback

import z3

from . import seqs as Q
from . import shapes as S
from . import source as SRC
from . import values as V
from .engine import Config, Explorer, PathEnd, PyRaise, SExc, State
from .interp import FnVal, Frame, Interp, LoopSpec
from .seqs import DRef, LRef, SObj, View
from .text import SText, TextShape as Text  # noqa: F401
from .shapes import Atom, Bool, Const, Custom, Enum, Int, ListOf, Nat, Obj, Opaque, Opt, Slice, Tup, TupleOf, Union  # noqa: F401
from .values import (  # noqa: F401
    SBool,
    Sym,
    Unsupported,
    all_of,
    any_of,
    both,
    either,
    eq,
    fdiv,
    fmod,
    forall,
    iabs,
    imax,
    imin,
    implies,
    is_none,
    iround,
    ite,
    itrunc,
    to_real,
    mk_bool,
    val,
    neg,
    opt_eq,
    opt_isnone,
)

def count_ev(trace, name):
    return sum(1 for ev in trace if ev[0] == name)


def ev_args(trace, name):
    return [tuple(ev[1:]) for ev in trace if ev[0] == name]


def ev_before(trace, first, then):
    """Every `first` event precedes every `then` event (and both occur)."""
    fi = [i for i, ev in enumerate(trace) if ev[0] == first]
    ti = [i for i, ev in enumerate(trace) if ev[0] == then]
    return bool(fi) and bool(ti) and max(fi) < min(ti)


REGISTRY: dict = {}
PROTOCOLS: dict = {}
from .text import CharProtocol as _CharProtocol  # noqa: E402

PROTOCOLS["Char"] = _CharProtocol()  # str predicates of one abstract character (chr(k).isdigit() ...), exact below 256

Loop = LoopSpec


class Contract:
    """Base class; subclasses created by the @contract decorator from a plain class body."""

    target = None
    property = None
    params: dict = {}
    self_shape = None  # Obj(...) for methods
    result = None  # Shape of the result, needed when this contract is used at a call site
    raises = ()
    raises_any = False  # callee may raise anything (opaque callbacks)
    modifies = ()
    loops: dict = {}
    inline = ()
    assumed = False  # an assumed contract (trusted; not verified against a body)
    pure_spec = None  # optional: function(a) -> result value (callee use: result := spec)
    bv_width = 64
    max_paths = None
    notes = ""

    def requires(self, *a):
        return True

    def ensures(self, *a):
        return ()

    def on_raise(self, *a):
        return ()

    # -- replay hooks (native execution)
    def native_call(self, real_fn, kwargs):
        return real_fn(**kwargs)

    # -- callee use ------------------------------------------------------------------------------
    def bind(self, f: FnVal, args, kwargs):
        node = f.ref.node
        a = node.args
        names = [p.arg for p in a.posonlyargs + a.args]
        vals = {}
        args = list(args)
        for i, n in enumerate(names):
            if i < len(args):
                vals[n] = args[i]
            elif n in kwargs:
                vals[n] = kwargs[n]
        defaults = a.defaults
        for i, n in enumerate(names):
            if n not in vals:
                di = i - (len(names) - len(defaults))
                if di >= 0:
                    vals[n] = ast.literal_eval(defaults[di]) if isinstance(defaults[di], ast.Constant) or isinstance(defaults[di], (ast.Tuple, ast.UnaryOp)) else None
        for p, d in zip(a.kwonlyargs, a.kw_defaults):
            if p.arg in kwargs:
                vals[p.arg] = kwargs[p.arg]
            elif d is not None and isinstance(d, ast.Constant):
                vals[p.arg] = d.value
        return vals

    ctor_params = ()

    def bind_ctor(self, args, kwargs):
        vals = dict(getattr(self, "ctor_defaults", {}))
        for n, v in zip(self.ctor_params, args):
            vals[n] = v
        vals.update(kwargs)
        return vals

    def apply(self, ip: Interp, st: State, f: FnVal, args, kwargs, site=None, check_pre=True):
        vals = self.bind(f, args, kwargs)
        self_obj = None
        if self.self_shape is not None:
            first = (f.ref.node.args.posonlyargs + f.ref.node.args.args)[0].arg
            self_obj = vals.pop(first)
        gl = getattr(self, "globals_", None)
        if gl:
            have = st.ghost.setdefault("globals", {})
            for k, shp in gl.items():
                if k not in have:
                    have[k] = shp.fresh(st, k)
                vals[f"g_{k}"] = have[k]
        where = f"call-pre@{f.ref.qualname}:{(site or '').split(':')[-1]}"
        for k, v in list(vals.items()):
            # an Optional value handed to a parameter the contract declares as a plain int / bool (e.g. an element of a
            # list of Optional[int]): decided here (a fork only if both cases are possible); None for such a
            # parameter is outside the callee's verified domain -> the caller's obligation fails
            if isinstance(v, V.SOpt) and isinstance(self.params.get(k), (S._Int, S._Bool)):
                fv = st.force(v)
                if fv is None:
                    st.oblige(f"{ip.task.name}/{where}/{k}-is-not-None", False, "call-pre")
                    raise PathEnd()
                vals[k] = fv
        vals["old"] = View({k: v.snapshot() for k, v in vals.items() if isinstance(v, (LRef, DRef, SObj)) or hasattr(v, "py_version")})
        a = View(vals)
        pre = self.requires(self_obj, a) if self_obj is not None else self.requires(a)
        if check_pre:
            st.oblige(f"{ip.task.name}/{where}", pre if isinstance(pre, (SBool, bool)) else mk_bool(V._zb(pre)), "call-pre")
            cinv = getattr(self, "invariant", None)
            if cinv is not None and self_obj is not None and not getattr(self, "establishes_invariant", False) and getattr(self, "invariant_at_call_sites", True):
                # the callee's body was verified assuming its class invariant: the caller owes it at the call
                iv = cinv(self_obj)
                st.oblige(f"{ip.task.name}/call-inv@{f.ref.qualname}:{(site or '').split(':')[-1]}", iv if isinstance(iv, (SBool, bool)) else mk_bool(V._zb(iv)), "call-pre")
        else:
            st.assume(pre if isinstance(pre, (SBool, bool)) else mk_bool(V._zb(pre)))
        # recursion: a contract with `decreases` (a non-negative integer measure of (self, a) / (a)) applied inside
        # the verification of its own target is a recursive call — the measure must drop strictly below the
        # measure of the caller's own entry arguments (termination of the recursion; without `decreases` a
        # recursive call is only partially correct, as before)
        dec = getattr(self, "decreases", None)
        if dec is not None and check_pre and getattr(ip.task, "c", None) is self and getattr(ip.task, "entry_measure", None) is not None:
            m = dec(self_obj, a) if self_obj is not None else dec(a)
            st.oblige(f"{ip.task.name}/decreases@{f.ref.qualname}:{(site or '').split(':')[-1]}", both(V._cmp(">=", m, 0), V._cmp("<", m, ip.task.entry_measure)), "termination")
        det_terms = None
        if getattr(self, "deterministic", False):
            # a deterministic (pure) function: its result is an uninterpreted function of the arguments,
            # the receiver's fields and the state versions of the opaque children it may consult
            from .protocol import encode_arg

            det_terms = []
            for k in sorted(vals):
                if k != "old":
                    det_terms.extend(encode_arg(st, vals[k]))
            if self_obj is not None:
                # `deterministic_reads` (optional): the receiver fields the function reads -- its value is a function
                # of those only (to be backed by a static check of the body, see contracts.C09_pile.reads_only)
                reads = getattr(self, "deterministic_reads", None)

                def field_terms(obj, only=None):
                    for _k, v in sorted(obj.fields.items()):
                        if only is not None and _k not in only:
                            continue
                        if isinstance(v, SObj) and reads is not None:
                            field_terms(v)  # nested object (the contents list): its scalar fields and lengths
                            continue
                        if isinstance(v, (LRef, Q.SSeq)) and reads is not None:
                            det_terms.append(V._z(Q.seq_len(v)))
                            continue
                        try:
                            det_terms.extend(encode_arg(st, v))
                        except Unsupported:
                            continue
                        if isinstance(v, V.SOpaque):
                            det_terms.append(z3.IntVal(st.ghost.get("ver", {}).get(V.zstr(v.e), 0)))

                field_terms(self_obj, reads)
                if reads is not None:
                    # ... and of the state versions of the opaque children it may consult (all of them)
                    det_terms.append(z3.IntVal(V.atom_code(repr(sorted(st.ghost.get("ver", {}).items())))))
        # exceptional outcomes
        excs = list(self.raises)
        riff = getattr(self, "raises_iff", None)
        if riff is not None:
            excs = list(riff)
            conds = [riff[e](self_obj, a) if self_obj is not None else riff[e](a) for e in excs]
            conds = [cnd if isinstance(cnd, (SBool, bool)) else mk_bool(V._zb(cnd)) for cnd in conds]
            none = both(*[neg(cnd) for cnd in conds])
            k = st.choose([none] + conds)
            if k > 0:
                exc = SExc(excs[k - 1], ("<from callee contract>",), site=f"callee {f.ref.qualname}")
                if self_obj is not None and getattr(self, "log_event", None):
                    self_obj.trace.append((self.log_event, "raised"))
                er = getattr(self, "effects_raise", None)
                if er is not None:
                    er(self_obj, a, exc)
                raise PyRaise(exc)
        elif excs:
            if det_terms is not None and getattr(self, "deterministic_outcome", False):
                # `deterministic_outcome = True` on a deterministic contract: WHETHER the call raises (and which of the
                # listed classes) is, like its result, a function of the same arguments / receiver fields / child state
                # versions -- an uninterpreted outcome index.  Two calls in the same state therefore end the same way;
                # in particular `spec_value` in a postcondition, after the body's own call has returned, does not fork
                # into the exceptional outcome.  (Backed by the same static check as `deterministic`: the body reads
                # nothing else.)
                oc = z3.Function(f"fn:{self.target.split(':')[1]}#outcome/{'.'.join(str(t.sort())[0] for t in det_terms)}", *[t.sort() for t in det_terms], z3.IntSort())(*det_terms)
                st.assume(z3.And(oc >= 0, oc <= len(excs)))
                k = st.choose([mk_bool(oc == i) for i in range(len(excs) + 1)])
            else:
                k = st.fork(len(excs) + 1)
            if k > 0:
                exc = SExc(excs[k - 1], ("<from callee contract>",), site=f"callee {f.ref.qualname}")
                old = self_obj.snapshot() if self_obj is not None else None
                if self_obj is not None:
                    self.havoc(st, self_obj)
                orc = getattr(self, "on_raise_callee", None) or self.on_raise
                for _label, fml in self._gen(orc(old, self_obj, a, exc) if self_obj is not None else orc(a, exc)):
                    st.assume(fml)
                if self_obj is not None and getattr(self, "log_event", None):
                    self_obj.trace.append((self.log_event, "raised"))
                raise PyRaise(exc)
        old = self_obj.snapshot() if self_obj is not None else None
        saved_trace = None
        for name in getattr(self, "modifies_args", ()):
            tgt = vals.get(name)
            if isinstance(tgt, LRef):
                shp = self.params[name]
                # optional hook `modifies_arg_shape(name, lref, vals)`: the element shape of the havocked list follows
                # the actual argument (a contract generic in the element type, e.g. run-length lists of any attribute type)
                hook = getattr(self, "modifies_arg_shape", None)
                if hook is not None:
                    shp = hook(name, tgt, vals) or shp
                tgt.seq = shp.fresh_seq(st, f"{name}'")
                st.ghost.setdefault("lists_modified_by_callee", []).append(tgt)
        if self_obj is not None:
            self.havoc(st, self_obj)
            # the callee's contract speaks about the events of *this* call only
            saved_trace = list(self_obj.trace)
            self_obj.trace.clear()
            old.trace.clear()
        if self.pure_spec is not None:
            result = self.pure_spec(a) if self_obj is None else self.pure_spec(old, a)
        elif det_terms is not None and self.result is not None:
            from .protocol import uf_shape_value

            result = uf_shape_value(st, f"fn:{self.target.split(':')[1]}", det_terms, self.result)
        else:
            rshape = self.result
            rh = getattr(self, "result_shape", None)
            if rh is not None:
                # optional hook `result_shape(vals)`: the result's shape follows the actual arguments
                rshape = rh(vals) or rshape
            result = rshape.fresh(st, f"r_{f.ref.node.name}") if rshape is not None else None
        # the callee's contract speaks about the events of this call only: evaluate it over a local trace
        saved_global = st.trace
        st.trace = []
        if self_obj is not None:
            ev = getattr(self, "log_event", None)
            if ev:
                self_obj.trace.append((ev, *[vals[k] for k in vals]))
            eff = getattr(self, "effects", None)
            if eff is not None:
                eff(old, self_obj, a, result)
        ens_fn = getattr(self, "ensures_callee", None) or self.ensures
        # (ghost, read-only: the terms a deterministic contract's result is a function of -- a callee view may define
        #  further deterministic ghost values of the same call from them, e.g. "the item that is the widest")
        st.ghost["det_terms"] = det_terms
        ens = ens_fn(old, self_obj, a, result) if self_obj is not None else ens_fn(a, result)
        _label = None
        try:
            for _label, fml in self._gen(ens):
                st.assume(fml if isinstance(fml, (SBool, bool)) else mk_bool(V._zb(fml)))
        except PathEnd:
            if os.environ.get("PYVC_DEBUG_DEAD"):
                # (developer aid) which clause of the callee's postcondition was concretely false at this call site.  Often
                # legitimate -- the engine forks over the alternatives of an optional result and the postcondition rules one
                # out -- but a clause about the EVENTS of the callee's body (which a call site does not replay) is false at
                # every call site and silently ends the caller's path: such clauses belong in `ensures` only, callers get
                # `ensures_callee`.  The reach@after guard below catches the case where no path survives.
                print(f"DEAD {ip.task.name} @{f.ref.qualname}:{(site or '').split(':')[-1]} clause={_label}", file=sys.stderr)
            # the callee's postcondition is concretely false here: the path ends -- the reachability guard of this call
            # site must not silently disappear with it (a caller could otherwise come back "ok" with no obligations left)
            if check_pre and not getattr(self, "never_returns", False):
                st.cover_dead(f"{ip.task.name}/reach@after-{f.ref.qualname}:{(site or '').split(':')[-1]}")
            raise
        finally:
            st.trace = saved_global + st.trace
        if check_pre:
            st.cover(f"{ip.task.name}/reach@after-{f.ref.qualname}:{(site or '').split(':')[-1]}")
        if self_obj is not None:
            delta = list(self_obj.trace)
            self_obj.trace.clear()
            self_obj.trace.extend(saved_trace + delta)
        ip.task.used_contracts.add(self.target)
        return result

    def spec_value(self, self_obj, **vals):
        """Contract-side: the value a (deterministic) call would return in the current state."""
        st = V.cur()

        class _T:  # minimal task/interp stand-in for apply()
            pass

        ip = _T()
        ip.task = _T()
        ip.task.name = "spec"
        ip.task.used_contracts = set()
        ref = SRC.resolve(self.target)
        f = FnVal(ref)
        n0 = len(st.ex.obligations)
        args = [self_obj] if self_obj is not None else []
        return self.apply(ip, st, f, args, vals, site="spec", check_pre=False)

    def havoc(self, st, obj: SObj):
        for name in self.modifies:
            shp = self.self_shape.fields.get(name) if self.self_shape else None
            if shp is None:
                shp = S.shape_of(obj.fields[name])
            obj.fields[name] = shp.fresh(st, f"self.{name}'")

    @staticmethod
    def _gen(r):
        if r is None:
            return
        if inspect.isgenerator(r):
            yield from r
        elif isinstance(r, (tuple, list)):
            for i, x in enumerate(r):
                yield (x if isinstance(x, tuple) else (str(i), x))
        else:
            yield ("post", r)


def contract(target, property=None, **kw):  # noqa: A002
    def deco(cls):
        ns = {k: v for k, v in cls.__dict__.items() if not k.startswith("__")}
        ns.update(kw)
        ns["target"] = target
        ns["property"] = property
        for fn in ("requires", "ensures", "on_raise", "pure_spec", "native_call", "make_self", "observe", "effects", "invariant", "ensures_callee", "on_raise_callee", "effects_raise", "setup", "call_real", "missing_field", "comprehension_sum", "decode_model", "decreases", "binop", "cover_witness", "modifies_arg_shape", "result_shape"):
            if fn in ns and inspect.isfunction(ns[fn]):
                ns[fn] = staticmethod(ns[fn])
        C = type(cls.__name__, (Contract,), ns)
        inst = C()
        inst.defined_in = cls.__module__
        # `alias`: a second, independent contract on the same real function (e.g. another property's clauses);
        # it is verified against the body like any other but never used at call sites (callers see the primary one)
        alias = ns.get("alias")
        REGISTRY[target if not alias else f"{target}#{alias}"] = inst
        return inst

    return deco


class TaskResult:
    def __init__(self, name):
        self.name = name
        self.target = None
        self.property = None
        self.status = "ok"  # ok | unsupported | error
        self.message = ""
        self.obligations = []
        self.paths = 0
        self.solver_time = 0.0
        self.wall = 0.0
        self.source_hash = None
        self.used_contracts = []
        self.inlined = []
        self.queries = 0

    def counts(self):
        c = {}
        for o in self.obligations:
            c[o["status"]] = c.get(o["status"], 0) + 1
        return c


class VerifyTask:
    """Verify the real body of `contract.target` against `contract`, callee contracts from REGISTRY."""

    def __init__(self, c: Contract, config: Config | None = None, fn_override=None):
        self.c = c
        self.name = f"{c.property}/{c.target.split(':')[1]}"
        self.config = config or Config()
        if c.max_paths:
            self.config.max_paths = c.max_paths
        if getattr(c, "qf_branching", False):
            self.config.qf_branching = True  # the Config instance is per task
        if getattr(c, "branch_timeout_ms", None):
            # feasibility checks at branches: an `unknown` answer keeps the branch (sound), so a contract whose
            # path conditions carry quantifiers may ask for a shorter budget per check
            self.config.branch_timeout_ms = c.branch_timeout_ms
        if getattr(c, "forall_range_check", True) is False:
            self.config.forall_range_check = False
        if getattr(c, "ground_first", False):
            self.config.ground_first = True
        if getattr(c, "rounding_hints", False):
            self.config.rounding_hints = True
        if getattr(c, "cover_timeout_ms", None):
            self.config.cover_timeout_ms = c.cover_timeout_ms
        if getattr(c, "qf_forall_only", False):
            # values.forall: decide "is the range empty on this path?" on the quantifier-free part of the path
            # condition only (an optimisation: an undetected empty range just yields a vacuous quantifier)
            self.config.qf_forall_only = True
        self.ref = fn_override or SRC.resolve(c.target)
        self.used_contracts: set = set()
        self.inlined: set = set()
        self.bv_width = c.bv_width
        self.old_view = None
        self.entry_measure = None
        self._loops = None

    # ---- services for the interpreter
    def contract_for(self, key, f):
        # `contract_overrides` of the contract under verification: callee contracts that replace the registered
        # ones for this task only (e.g. a callee described over the real fields instead of the protocol model)
        ov = getattr(self.c, "contract_overrides", None)
        if ov and key in ov:
            return ov[key]
        c = REGISTRY.get(key)
        # `receiver_fields` of a method contract: it describes the receiver through these fields, so it is only used at
        # call sites whose receiver model has them all; another contract file that models a SUBCLASS instance without
        # them (and lists the method in its `inline=`) keeps executing the body, as before the contract existed
        need = getattr(c, "receiver_fields", None) if c is not None else None
        if need and isinstance(getattr(f, "bound", None), SObj) and not all(n in f.bound.fields for n in need):
            return None
        return c

    def may_inline(self, key, f):
        if f.closure is not None or "<" in f.ref.qualname:
            return True  # nested closures / lambdas are always inlined
        ok = key in self.c.inline or any(key.endswith(":" + x) or key == x for x in self.c.inline)
        if ok:
            self.inlined.add(key)
        return ok

    def loop_ordinal(self, ref, node):
        loops = SRC.loops_of(ref.node)
        for i, l in enumerate(loops):
            if l is node:
                return i
        return -1

    def loop_spec(self, ref, node):
        if ref.key == self.ref.key:
            specs = self.c.loops
        else:
            specs = getattr(self.c, "inline_loops", {}).get(ref.key, {})
        return specs.get(self.loop_ordinal(ref, node))

    def call_opaque(self, ip, st, f, args, kwargs):
        p = PROTOCOLS.get(f.kind)
        if p is None:
            raise Unsupported(f"call of opaque {f.kind}")
        return p.call(ip, st, f, args, kwargs)

    def opaque_getattr(self, ip, st, obj, name):
        p = PROTOCOLS.get(obj.kind)
        if p is None:
            raise Unsupported(f"attribute {name} of opaque {obj.kind}")
        return p.getattr(ip, st, obj, name)

    def opaque_setattr(self, ip, st, obj, name, value):
        p = PROTOCOLS.get(obj.kind)
        if p is None:
            raise Unsupported(f"attribute store {name} on opaque {obj.kind}")
        return p.setattr(ip, st, obj, name, value)

    def opaque_subscript(self, ip, st, obj, idx):
        p = PROTOCOLS.get(obj.kind)
        if p is None or not hasattr(p, "subscript"):
            raise Unsupported(f"subscript of opaque {obj.kind}")
        return p.subscript(ip, st, obj, idx)

    def opaque_len(self, ip, st, obj):
        p = PROTOCOLS.get(obj.kind)
        if p is None or not hasattr(p, "len"):
            raise Unsupported(f"len of opaque {obj.kind}")
        return p.len(ip, st, obj)

    def opaque_isinstance(self, ip, st, obj, cls):
        p = PROTOCOLS.get(obj.kind)
        if p is None or not hasattr(p, "isinstance"):
            raise Unsupported(f"isinstance of opaque {obj.kind}")
        return p.isinstance(ip, st, obj, cls)

    def opaque_binop(self, ip, st, op, a, b):
        """`a <op> b` where an operand is an opaque individual: modelled by the protocol of its kind
        (`binop(ip, st, op, a, b)`), e.g. the intersection of a child's sizing set with a constant set."""
        o = a if isinstance(a, V.SOpaque) else b
        p = PROTOCOLS.get(o.kind)
        if p is None or not hasattr(p, "binop"):
            raise Unsupported(f"binary op {type(op).__name__} on opaque {o.kind}")
        return p.binop(ip, st, op, a, b)

    def opaque_hasattr(self, ip, st, obj, name):
        p = PROTOCOLS.get(obj.kind)
        if p is None or not hasattr(p, "hasattr"):
            raise Unsupported(f"hasattr of opaque {obj.kind}")
        return p.hasattr(ip, st, obj, name)

    def construct(self, ip, st, cls, args, kwargs, site):
        """Constructor call of a repository class that has an `__init__` contract with `constructs`."""
        m = SRC.module_of_real(getattr(cls, "__module__", "") or "")
        if m is None:
            return NotImplemented
        key = f"{m.relpath}:{cls.__qualname__}.__init__"
        c = self.contract_for(key, None)  # (the task's `contract_overrides` first, as for function calls)
        if c is None or getattr(c, "constructs", None) is None:
            return NotImplemented
        obj = c.constructs.fresh(st, cls.__name__.lower())
        obj.cls = cls
        a = View(c.bind_ctor(args, kwargs))
        # an `__init__` contract that is also verified against its body has a `self_shape`, and then `requires` takes
        # (self, a) as in VerifyTask.body (the new object's fields are unconstrained at entry)
        pre = c.requires(obj, a) if c.self_shape is not None else c.requires(a)
        st.oblige(f"{self.name}/call-pre@{cls.__name__}():{(site or '').split(':')[-1]}", pre if isinstance(pre, (SBool, bool)) else mk_bool(V._zb(pre)), "call-pre")
        excs = list(c.raises)
        riff = getattr(c, "raises_iff", None)
        if riff is not None:
            # a constructor contract that says exactly when it raises (as Contract.apply does for functions):
            # the caller follows the exceptional path only where one of the conditions holds
            excs = list(riff)
            conds = [riff[e](obj, a) if c.self_shape is not None else riff[e](a) for e in excs]
            conds = [cnd if isinstance(cnd, (SBool, bool)) else mk_bool(V._zb(cnd)) for cnd in conds]
            k = st.choose([both(*[neg(cnd) for cnd in conds])] + conds)
            if k > 0:
                raise PyRaise(SExc(excs[k - 1], ("<from constructor contract>",), site=f"callee {cls.__name__}"))
        elif excs:
            k = st.fork(len(excs) + 1)
            if k > 0:
                raise PyRaise(SExc(excs[k - 1], ("<from constructor contract>",), site=f"callee {cls.__name__}"))
        ens_fn = getattr(c, "ensures_callee", None) or c.ensures  # the callee-side form, as Contract.apply uses
        for _l, fml in c._gen(ens_fn(None, obj, a, None)):
            st.assume(fml if isinstance(fml, (SBool, bool)) else mk_bool(V._zb(fml)))
        st.cover(f"{self.name}/reach@after-{cls.__name__}():{(site or '').split(':')[-1]}")
        self.used_contracts.add(key)
        return obj

    def missing_field(self, ip, st, obj, name):
        h = getattr(self.c, "missing_field", None)
        if h is not None:
            return h(ip, st, obj, name)
        return NotImplemented

    def on_field_write(self, ip, st, obj, name, value):
        st.event("write", name)

    def comprehension(self, ip, st, e, fr):
        h = getattr(self.c, "comprehension", None)
        if h is not None:
            return h(ip, st, e, fr)
        return NotImplemented

    def call_real(self, ip, st, f, args, kwargs):
        h = getattr(self.c, "call_real", None)
        if h is not None:
            return h(ip, st, f, args, kwargs)
        return NotImplemented

    def sym_ord(self, ip, st, c):
        raise Unsupported("ord of symbolic character")

    def sym_chr(self, ip, st, n):
        raise Unsupported("chr of symbolic int")

    # ---- run
    def make_inputs(self, st):
        c = self.c
        vals = {}
        for name, shp in c.params.items():
            vals[name] = shp.fresh(st, name)
        self_obj = c.self_shape.fresh(st, "self") if c.self_shape is not None else None
        return self_obj, vals

    def body(self, st: State, ex: Explorer):
        c = self.c
        ip = Interp(self)
        self_obj, vals = self.make_inputs(st)
        gl = getattr(c, "globals_", None)
        if gl:
            st.ghost["globals"] = {k: shp.fresh(st, k) for k, shp in gl.items()}
            vals.update({f"g_{k}": v for k, v in st.ghost["globals"].items()})
        setup = getattr(c, "setup", None)
        if setup is not None:
            setup(st, self_obj, vals)
        vals["old"] = View({k: v.snapshot() for k, v in vals.items() if isinstance(v, (LRef, DRef, SObj)) or hasattr(v, "py_version")})
        a = View(vals)
        inputs = {k: v for k, v in vals.items() if k != "old"}
        if self_obj is not None:
            inputs["self"] = self_obj.snapshot()
        ex.inputs = inputs
        old = self_obj.snapshot() if self_obj is not None else None
        self.old_view = View(vals, self=old)
        pre = c.requires(self_obj, a) if self_obj is not None else c.requires(a)
        if inspect.isgenerator(pre):
            for _l, f in pre:
                st.assume(f)
        else:
            st.assume(pre if isinstance(pre, (SBool, bool)) else mk_bool(V._zb(pre)))
        inv = getattr(c, "invariant", None)
        # a method that (re-)establishes the class invariant (a setter called by the mutators while the
        # invariant is temporarily broken) is verified WITHOUT assuming it at entry: `establishes_invariant`
        if inv is not None and self_obj is not None and not getattr(c, "establishes_invariant", False):
            st.assume(inv(self_obj))
        st.cover(f"{self.name}/cover@pre")
        dec = getattr(c, "decreases", None)
        self.entry_measure = (dec(self_obj, a) if self_obj is not None else dec(a)) if dec is not None else None
        f = FnVal(self.ref, None, None, self.defcls())
        f.top_level = True
        args = ([self_obj] if self_obj is not None else []) + []
        kwargs = {k: v for k, v in vals.items() if not k.startswith("g_") and k != "old"}
        # positional binding by parameter name
        try:
            if getattr(c, "through_decorators", False) and self_obj is not None:
                # opt-in `through_decorators = True`: the method is verified AS CALLERS REACH IT -- its decorators
                # (e.g. monitored_list._call_modified, which calls the `modified` callback after the body) are applied
                # exactly as Interp.decorate_method applies them at a call site `self.method(...)`, then the decorated,
                # bound function is called with the contract's arguments in the order of `params`.  The undecorated body
                # (which the wrapper calls as `fn`) must be listed in `inline=` under its own key.  CPython cross-check:
                # the same wrapper is exercised through super() calls by the MonitoredFocusList tasks (replayed natively).
                f.top_level = False
                bound = ip.decorate_method(st, f, self_obj)
                result = ip.call(st, bound, [kwargs[k] for k in c.params], {})
            else:
                result = ip.run_function(st, f, args, kwargs)
        except PyRaise as pr:
            exc = pr.exc
            allowed = any(issubclass(exc.cls, r) for r in c.raises)
            if not allowed:
                st.oblige(f"{self.name}/raises/{exc.cls.__name__}@{exc.site}", False, "raises")
                raise PathEnd() from None
            st.cover(f"{self.name}/cover@raise-{exc.cls.__name__}")
            r = c.on_raise(old, self_obj, a, exc) if self_obj is not None else c.on_raise(a, exc)
            for label, fml in c._gen(r):
                st.oblige(f"{self.name}/on-raise/{label}", fml, "post")
            if inv is not None and self_obj is not None:
                # (a method that establishes the invariant and fails leaves it as it found it)
                st.oblige(f"{self.name}/class-inv@raise", implies(inv(old), inv(self_obj)) if getattr(c, "establishes_invariant", False) else inv(self_obj), "invariant")
            return
        st.cover(f"{self.name}/cover@exit")
        # spec queries in postconditions refer to the children as they were at entry
        st.ghost["ver_post"] = dict(st.ghost.get("ver", {}))
        st.ghost["ver"] = {}
        ens = c.ensures(old, self_obj, a, result) if self_obj is not None else c.ensures(a, result)
        for label, fml in c._gen(ens):
            st.oblige(f"{self.name}/post/{label}", fml, "post", assume_after=not getattr(c, "independent_posts", False))
        st.ghost["ver"] = dict(st.ghost["ver_post"])
        if inv is not None and self_obj is not None:
            st.oblige(f"{self.name}/class-inv@exit", inv(self_obj), "invariant")

    def defcls(self):
        # `defcls=` of the contract: the REAL class whose body defines the target, for a class created inside a function
        # call (`delegate_to_widget_mixin(name).<locals>.DelegateToWidgetMixin`): such a class is not reachable by
        # attribute access from its module, and each call of the factory makes another one with its own closure cells
        # (Frame._real_closure_cell reads them from this class).  The contract must name the class it means; that the
        # named class really is made from the target's source text is checked here (qualified name and module).
        given = getattr(self.c, "defcls", None)
        if given is not None:
            if given.__qualname__ != self.ref.cls_qual or SRC.module_of_real(given.__module__) is not self.ref.mod:
                raise Unsupported(f"defcls {given!r} is not the class {self.ref.cls_qual} of {self.ref.mod.relpath}")
            return given
        if self.ref.cls_qual:
            return SRC.real_class(self.ref.mod, self.ref.cls_qual)
        return None

    def run(self) -> TaskResult:
        res = TaskResult(self.name)
        res.target = self.c.target
        res.property = self.c.property
        res.source_hash = self.ref.source_hash()
        ex = Explorer(self.config)
        ex.cover_witness = getattr(self.c, "cover_witness", None)  # see State.cover
        t0 = time.time()
        try:
            ex.run(lambda st: self.body(st, ex))
        except Unsupported as e:
            res.status = "unsupported"
            res.message = str(e)
        except Exception as e:  # noqa: BLE001
            res.status = "error"
            res.message = f"{type(e).__name__}: {e}\n{traceback.format_exc()}"
        res.wall = time.time() - t0
        res.paths = ex.paths
        res.solver_time = ex.solver_time
        res.queries = ex.queries
        res.obligations = [o.as_dict() | ({"smt2": o.smt2} if o.smt2 else {}) for o in ex.results()]
        if res.status == "ok" and self.config.shard is None and not any(o["kind"] == "cover" and ("cover@exit" in o["name"] or "cover@raise" in o["name"]) for o in res.obligations):
            # no explored path reached a normal or exceptional exit: every postcondition is vacuously "proved".
            # (sharded runs: each shard sees part of the paths only; the merged result is judged in runner._merge_shards)
            res.obligations.append({"name": f"{self.name}/cover@exit", "kind": "cover", "status": "uncovered", "time": 0.0, "backend": "", "detail": "no explored path reaches an exit of the function", "path": [], "model": None})
        for chk in getattr(self.c, "static_checks", []) or []:
            try:
                label, ok, detail = chk()
            except Exception as e:  # noqa: BLE001
                label, ok, detail = "static-check", False, f"{type(e).__name__}: {e}"
            res.obligations.append({"name": f"{self.name}/static/{label}", "kind": "static", "status": "discharged" if ok else "failed", "time": 0.0,
                                    "backend": "ast", "detail": detail, "path": [], "model": None})
        res.used_contracts = sorted(self.used_contracts)
        res.inlined = sorted(self.inlined)
        return res


class Lemma(Contract):
    """A lemma over spec functions: `claim(a)` must follow from `requires(a)` for all values of `params`."""

    is_lemma = True

    def claim(self, a):
        return ()


def lemma(name, property=None, **kw):  # noqa: A002
    def deco(cls):
        ns = {k: v for k, v in cls.__dict__.items() if not k.startswith("__")}
        ns.update(kw)
        ns["target"] = f"lemma:{name}"
        ns["property"] = property
        for fn in ("requires", "claim"):
            if fn in ns and inspect.isfunction(ns[fn]):
                ns[fn] = staticmethod(ns[fn])
        inst = type(cls.__name__, (Lemma,), ns)()
        REGISTRY[inst.target] = inst
        return inst

    return deco


class LemmaTask:
    def __init__(self, c, config=None):
        self.c = c
        self.config = config or Config()
        self.name = f"{c.property}/{c.target}"

    def run(self):
        res = TaskResult(self.name)
        res.target = self.c.target
        res.property = self.c.property
        res.source_hash = "lemma"
        ex = Explorer(self.config)
        t0 = time.time()

        def body(st):
            vals = {k: shp.fresh(st, k) for k, shp in self.c.params.items()}
            ex.inputs = dict(vals)
            a = View(vals)
            pre = self.c.requires(a)
            st.assume(pre if isinstance(pre, (SBool, bool)) else mk_bool(V._zb(pre)))
            st.cover(f"{self.name}/cover@pre")
            for label, fml in self.c._gen(self.c.claim(a)):
                st.oblige(f"{self.name}/{label}", fml, "lemma")

        try:
            ex.run(body)
        except Unsupported as e:
            res.status, res.message = "unsupported", str(e)
        except Exception as e:  # noqa: BLE001
            res.status, res.message = "error", f"{type(e).__name__}: {e}\n{traceback.format_exc()}"
        res.wall = time.time() - t0
        res.paths, res.solver_time, res.queries = ex.paths, ex.solver_time, ex.queries
        res.obligations = [o.as_dict() | ({"smt2": o.smt2} if o.smt2 else {}) for o in ex.results()]
        return res
