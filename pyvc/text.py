"""Abstract texts: a str is a sequence of opaque characters with a column width each; a bytes object a
sequence of ints 0..255.  Width prefix sums are named by an uninterpreted function per text, with the
defining equation instantiated at every index that is read (ground instantiation, DESIGN.md §3.7)."""
from __future__ import annotations

import z3

from . import seqs as Q
from . import shapes as S
from . import values as V
from .values import SInt, SOpaque, Sym, Unsupported, cur, mk_bool, mk_int

CHAR = S.opaque_sort("Char")
_WIDTH = z3.Function("Char.width", CHAR, z3.IntSort())
_ORD = z3.Function("Char.ord", CHAR, z3.IntSort())
_CHR = z3.Function("Char.chr", z3.IntSort(), CHAR)


def char_width(c):
    """wcwidth-based column width of a character, clamped to {0,1,2} (assumed contract on wcwidth)."""
    e = _WIDTH(c.e)
    cur().assume(z3.And(e >= 0, e <= 2))
    return mk_int(e)


def char_ord(c):
    e = _ORD(c.e)
    cur().assume(z3.And(e >= 0, e < 0x110000, _CHR(e) == c.e))
    return mk_int(e)


def chr_of(n):
    zn = V._z(n)
    e = _CHR(zn)
    cur().assume(_ORD(e) == zn)
    return SOpaque("Char", e)


class SText(Sym):
    """kind 'str': elements are opaque Chars; kind 'bytes': ints in 0..255."""

    def __init__(self, kind, length, name):
        self.kind = kind
        self.length = length
        self.name = name
        if kind == "str":
            self.f = z3.Function(f"{name}$chars", z3.IntSort(), CHAR)
        else:
            self.f = z3.Function(f"{name}$bytes", z3.IntSort(), z3.IntSort())
        self.wsum = z3.Function(f"{name}$wsum", z3.IntSort(), z3.IntSort())
        self.offset = 0  # for slices: view into the same text

    def get(self, i):
        zi = V._z(i) + V._z(self.offset)
        st = cur()
        if self.kind == "str":
            c = SOpaque("Char", self.f(zi))
            w = _WIDTH(c.e)
            st.assume(z3.And(w >= 0, w <= 2, self.wsum(zi + 1) == self.wsum(zi) + w))
            return c
        e = self.f(zi)
        st.assume(z3.And(e >= 0, e <= 255))
        return mk_int(e)

    def W(self, k):
        """Sum of the widths of the first k characters (str texts)."""
        return mk_int(self.wsum(V._z(k) + V._z(self.offset)))

    def slice(self, lo, hi):
        t = SText.__new__(SText)
        t.__dict__.update(self.__dict__)
        t.offset = self.offset + lo
        t.length = V.imax(hi - lo, 0)
        return t

    def __repr__(self):
        return f"SText<{self.kind}:{self.name}>(len={self.length!r})"


class TextShape(S.Shape):
    def __init__(self, kind):
        self.kind = kind

    def fresh(self, st, hint):
        n = st.fresh_int(hint + "_len")
        st.assume(n.e >= 0)
        t = SText(self.kind, n, st.fresh_name(hint))
        if self.kind == "str":
            # widths are >= 0, so the prefix sums are monotone (a consequence of the defining equation,
            # stated once as a quantified fact because its proof would need induction)
            i, j = z3.Ints(f"{t.name}$i {t.name}$j")
            st.assume(z3.ForAll([i, j], z3.Implies(i <= j, t.wsum(i) <= t.wsum(j))))
        return t

    def __repr__(self):
        return f"Text({self.kind})"


def concretize_text(model, t, max_len=16):
    n = model.eval(V._z(t.length), model_completion=True).as_long()
    n = min(n, max_len)
    out = []
    for i in range(n):
        zi = z3.IntVal(i) + V._z(t.offset)
        if t.kind == "bytes":
            out.append(model.eval(t.f(zi), model_completion=True).as_long() % 256)
        else:
            c = t.f(zi)
            w = model.eval(_WIDTH(c), model_completion=True).as_long()
            out.append({0: "́", 1: "a", 2: "中"}.get(w, "a"))
    return bytes(out) if t.kind == "bytes" else "".join(out)
