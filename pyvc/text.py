"""Abstract texts: a str is a sequence of opaque characters with a column width each; a bytes object a
sequence of ints 0..255.  Width prefix sums are named by an uninterpreted function per text, with the
defining equation instantiated at every index that is read (ground instantiation, DESIGN.md §3.7)."""
from __future__ import annotations

import z3

from . import seqs as Q
from . import shapes as S
from . import values as V
from .values import SInt, SOpaque, Sym, Unsupported, cur, mk_bool, mk_int

CHAR = S.opaque_sort("Char")
_WIDTH = z3.Function("Char.width", CHAR, z3.IntSort())
_ORD = z3.Function("Char.ord", CHAR, z3.IntSort())
_CHR = z3.Function("Char.chr", z3.IntSort(), CHAR)


def char_width(c):
    """wcwidth-based column width of a character, clamped to {0,1,2} (assumed contract on wcwidth)."""
    e = _WIDTH(c.e)
    cur().assume(z3.And(e >= 0, e <= 2))
    return mk_int(e)


def char_ord(c):
    e = _ORD(c.e)
    cur().assume(z3.And(e >= 0, e < 0x110000, _CHR(e) == c.e))
    return mk_int(e)


def chr_of(n):
    zn = V._z(n)
    e = _CHR(zn)
    cur().assume(_ORD(e) == zn)
    return SOpaque("Char", e)


class SText(Sym):
    """kind 'str': elements are opaque Chars; kind 'bytes': ints in 0..255."""

    is_text = True  # the engine recognises texts (this class and the derived ones below) by this flag

    def __init__(self, kind, length, name):
        self.kind = kind
        self.length = length
        self.name = name
        if kind == "str":
            self.f = z3.Function(f"{name}$chars", z3.IntSort(), CHAR)
        else:
            self.f = z3.Function(f"{name}$bytes", z3.IntSort(), z3.IntSort())
        self.wsum = z3.Function(f"{name}$wsum", z3.IntSort(), z3.IntSort())
        self.offset = 0  # for slices: view into the same text

    def get(self, i):
        zi = V._z(i) + V._z(self.offset)
        st = cur()
        if self.kind == "str":
            c = SOpaque("Char", self.f(zi))
            w = _WIDTH(c.e)
            st.assume(z3.And(w >= 0, w <= 2, self.wsum(zi + 1) == self.wsum(zi) + w))
            return c
        e = self.f(zi)
        st.assume(z3.And(e >= 0, e <= 255))
        return mk_int(e)

    def W(self, k):
        """Sum of the widths of the first k characters (str texts)."""
        return mk_int(self.wsum(V._z(k) + V._z(self.offset)))

    def raw(self, zi):
        """Element zi as a bare z3 term (a Char / an Int), without the side facts `get` assumes — for use under
        a quantifier (text equality)."""
        return self.f(zi + V._z(self.offset))

    def slice(self, lo, hi):
        t = SText.__new__(SText)
        t.__dict__.update(self.__dict__)
        t.offset = self.offset + lo
        t.length = V.imax(hi - lo, 0)
        return t

    def __repr__(self):
        return f"SText<{self.kind}:{self.name}>(len={self.length!r})"


class TextShape(S.Shape):
    def __init__(self, kind, monotone_widths=True):
        """monotone_widths=False: leave out the quantified monotonicity fact about the width prefix sums — for
        contracts that speak about offsets and contents only (C10); their failing obligations then come back
        `sat` with a model instead of `unknown`."""
        self.kind = kind
        self.monotone_widths = monotone_widths

    def fresh(self, st, hint):
        n = st.fresh_int(hint + "_len")
        st.assume(n.e >= 0)
        t = SText(self.kind, n, st.fresh_name(hint))
        if self.kind == "str" and self.monotone_widths:
            # widths are >= 0, so the prefix sums are monotone (a consequence of the defining equation,
            # stated once as a quantified fact because its proof would need induction)
            i, j = z3.Ints(f"{t.name}$i {t.name}$j")
            st.assume(z3.ForAll([i, j], z3.Implies(i <= j, t.wsum(i) <= t.wsum(j))))
        return t

    def __repr__(self):
        return f"Text({self.kind})"

    def seq_getter(self, st, base, path, nidx):
        """Hook of seqs.fresh_seq: texts as ELEMENTS of a fresh sequence (`ListOf(Tup(.., Text("bytes")))`, e.g. the
        (attr, cs, text) runs of a canvas row).  Element (i...) is the text whose length, elements and width prefix
        sums are the leaf functions `len(i...)`, `elt(i..., k)`, `wsum(i..., k)` -- one more index per nesting level,
        exactly as for the int / opaque leaves of fresh_seq.  Such a text has no name of its own (see SElemText)."""
        dom = [z3.IntSort()] * nidx
        rng = CHAR if self.kind == "str" else z3.IntSort()
        F = z3.Function(f"{base}{path}${'chars' if self.kind == 'str' else 'bytes'}", *dom, z3.IntSort(), rng)
        WS = z3.Function(f"{base}{path}$wsum", *dom, z3.IntSort(), z3.IntSort())
        LN = z3.Function(f"{base}{path}$len", *dom, z3.IntSort())

        def g(*idx, kind=self.kind):
            zi = [Q.zint(i) for i in idx]
            ln = LN(*zi)
            cur().assume(ln >= 0)
            return SElemText(kind, mk_int(ln), lambda z, zi=zi: F(*zi, z), lambda z, zi=zi: WS(*zi, z))

        return g


class SElemText(SText):
    """A text that is an element of a fresh sequence (TextShape.seq_getter): `f` / `wsum` are the sequence's leaf
    functions applied to the element's index terms.  Length, elements, width prefix sums, slices and equality work as
    for any base text; it has NO `name` (the per-text functions that contracts key by name -- column functions, the
    identity used for deterministic callees -- would be shared by all elements of the sequence): asking for it is
    Unsupported."""

    def __init__(self, kind, length, f, wsum, offset=0):
        self.kind, self.length, self.f, self.wsum, self.offset = kind, length, f, wsum, offset

    @property
    def name(self):
        raise Unsupported("the name of a text that is an element of a symbolic sequence (it has none: per-text functions keyed by name are not available for it)")

    def slice(self, lo, hi):
        return SElemText(self.kind, V.imax(hi - lo, 0), self.f, self.wsum, self.offset + lo)

    def __repr__(self):
        return f"SElemText<{self.kind}>(len={self.length!r})"


def concretize_text(model, t, max_len=16):
    n = model.eval(V._z(t.length), model_completion=True).as_long()
    n = min(n, max_len)
    out = []
    for i in range(n):
        zi = z3.IntVal(i) + V._z(t.offset)
        if t.kind == "bytes":
            out.append(model.eval(t.f(zi), model_completion=True).as_long() % 256)
        else:
            c = t.f(zi)
            w = model.eval(_WIDTH(c), model_completion=True).as_long()
            out.append({0: "́", 1: "a", 2: "中"}.get(w, "a"))
    return bytes(out) if t.kind == "bytes" else "".join(out)


# ---------------------------------------------------------------------------------------------
# Derived texts: concatenation, slices of derived texts, constants, repetition (added for C10, the Edit
# widget's `text[:pos] + ch + text[pos:]`).
#
# A derived text has no uninterpreted function of its own: element k and the width prefix sum are *terms*
# over the texts it was built from (an if-then-else on the index), so every obligation stays quantifier
# free.  Semantics are CPython's for str/bytes of equal kind:
#   (a + b)[k]  = a[k] if k < len(a) else b[k - len(a)]          len(a + b) = len(a) + len(b)
#   (c * n)     = n copies of the one-element text c, "" for n <= 0
#   t[lo:hi]    = the view of hi - lo elements starting at lo (after slice.indices normalisation, done by the caller)
# cross-checked against the interpreter on concrete values by `xcheck_derived_texts()` below, which builds the
# same terms from concrete operands, evaluates them with z3 and compares with Python's own result.


class _Derived(SText):
    def __init__(self, kind, length):
        self.kind = kind
        self.length = length

    def __getattr__(self, name):
        if name in ("f", "wsum", "offset", "name"):
            raise Unsupported(f"'{name}' of a derived text (concatenation / constant): only length, elements, widths and slices are modelled")
        raise AttributeError(name)

    def slice(self, lo, hi):
        return SView(self, lo, V.imax(hi - lo, 0))

    def __repr__(self):
        return f"{type(self).__name__}<{self.kind}>(len={self.length!r})"


class SView(_Derived):
    def __init__(self, base, lo, length):
        super().__init__(base.kind, length)
        self.base, self.lo = base, lo

    def get(self, i):
        return self.base.get(self.lo + i)

    def W(self, k):
        return self.base.W(self.lo + k)

    def raw(self, zi):
        return self.base.raw(V._z(self.lo) + zi)


class SConcat(_Derived):
    def __init__(self, a, b):
        super().__init__(a.kind, a.length + b.length)
        self.a, self.b = a, b

    def get(self, i):
        la = self.a.length
        return V.ite(V._cmp("<", i, la), self.a.get(i), self.b.get(i - la))

    def W(self, k):
        a, b = self.a, self.b
        la = a.length
        return V.ite(V._cmp("<=", k, la), a.W(k) - a.W(0), a.W(la) - a.W(0) + b.W(k - la) - b.W(0))

    def raw(self, zi):
        la = V._z(self.a.length)
        return z3.If(zi < la, self.a.raw(zi), self.b.raw(zi - la))


class SConst(_Derived):
    """A literal str / bytes value as a text: characters are the individuals `chr(ord(c))`."""

    def __init__(self, value):
        super().__init__("str" if isinstance(value, str) else "bytes", len(value))
        self.value = value

    def _elem(self, j):
        if self.kind == "bytes":
            return self.value[j]
        return chr_of(ord(self.value[j]))

    def get(self, i):
        n = len(self.value)
        if n == 0:
            return 0 if self.kind == "bytes" else chr_of(0)
        if isinstance(i, int):
            return self._elem(min(max(i, 0), n - 1))
        r = self._elem(n - 1)
        for j in range(n - 2, -1, -1):
            r = V.ite(V._cmp("<=", i, j), self._elem(j), r)
        return r

    def raw(self, zi):
        n = len(self.value)

        def el(j):
            e = self._elem(j)  # chr_of asserts ORD(CHR(k)) == k as a ground fact (distinct literals stay distinct)
            return e.e if isinstance(e, SOpaque) else z3.IntVal(e)

        if n == 0:
            return el0(self.kind)
        r = el(n - 1)
        for j in range(n - 2, -1, -1):
            r = z3.If(zi <= j, el(j), r)
        return r

    def W(self, k):
        if self.kind != "str":
            raise Unsupported("width of a bytes constant")
        n = len(self.value)
        sums = [0]
        for j in range(n):
            sums.append(sums[-1] + char_width(chr_of(ord(self.value[j]))))
        if isinstance(k, int):
            return sums[min(max(k, 0), n)]
        r = sums[n]
        for j in range(n - 1, -1, -1):
            r = V.ite(V._cmp("<=", k, j), sums[j], r)
        return r


class SRepeat(_Derived):
    """unit * n (CPython: n copies of unit, the empty text for n <= 0).  A unit of one element (the common case, `" " * n`)
    needs no arithmetic; a unit of any other length L -- constant or symbolic, e.g. the encoded fill character of a
    SolidCanvas -- has element k = unit[k mod L] and length L * max(n, 0) (k mod L is never evaluated for L = 0: the
    result is empty then).  Cross-check against CPython: xcheck_derived_texts()."""

    def __init__(self, unit, n):
        self.one = isinstance(unit.length, int) and unit.length == 1
        super().__init__(unit.kind, V.imax(n, 0) if self.one else unit.length * V.imax(n, 0))
        self.unit, self.n = unit, n

    def _pos(self, i):
        ln = self.unit.length
        if isinstance(ln, int):
            return i % ln if ln > 0 else 0
        return i % V.ite(V._cmp(">", ln, 0), ln, 1)

    def get(self, i):
        return self.unit.get(0 if self.one else self._pos(i))

    def W(self, k):
        if self.one:
            return k * char_width(self.unit.get(0))
        ln = self.unit.length
        whole = self.unit.W(ln) - self.unit.W(0)
        d = ln if isinstance(ln, int) and ln > 0 else (1 if isinstance(ln, int) else V.ite(V._cmp(">", ln, 0), ln, 1))
        return (k // d) * whole + self.unit.W(self._pos(k)) - self.unit.W(0)

    def raw(self, zi):
        if self.one:
            return self.unit.raw(z3.IntVal(0))
        ln = self.unit.length
        if isinstance(ln, int):
            return self.unit.raw(zi % ln if ln > 0 else z3.IntVal(0))
        zl = V._z(ln)
        return self.unit.raw(zi % z3.If(zl > 0, zl, z3.IntVal(1)))


class STextIte(_Derived):
    """`a if c else b` for two texts of one kind as a VALUE (no path fork): length, elements and width prefix sums are
    the conditionals of the two.  (CPython: the conditional expression yields one of the two objects; every observer
    modelled here -- len, indexing, slicing, widths, equality -- then reads that object.)"""

    def __init__(self, c, a, b):
        super().__init__(a.kind, V.ite(c, a.length, b.length))
        self.c, self.a, self.b = c, a, b

    def get(self, i):
        return V.ite(self.c, self.a.get(i), self.b.get(i))

    def W(self, k):
        return V.ite(self.c, self.a.W(k), self.b.W(k))

    def raw(self, zi):
        return z3.If(V._zb(self.c), self.a.raw(zi), self.b.raw(zi))


def el0(kind):
    return z3.IntVal(0) if kind == "bytes" else _CHR(z3.IntVal(0))


def as_text(v):
    """An SText for a str / bytes literal; SText values unchanged; None for anything else."""
    if isinstance(v, SText):
        return v
    if isinstance(v, (str, bytes)):
        return SConst(v)
    return None


def text_concat(a, b):
    return SConcat(a, b)


def elem_eq(x, y):
    if isinstance(x, SOpaque) or isinstance(y, SOpaque):
        return x == y
    return V._cmp("==", x, y) if (V.is_sym(x) or V.is_sym(y)) else x == y


def text_eq(a, b):
    """a == b for two texts (same kind, same length, equal elements).  Dual use: plain str/bytes natively.
    As a goal the element-wise part is a universally quantified formula (z3 Skolemises its negation); a
    constant operand is compared position by position (no quantifier)."""
    if not isinstance(a, SText) and not isinstance(b, SText):
        return a == b
    a, b = as_text(a), as_text(b)
    if a is None or b is None or a.kind != b.kind:
        return False
    if a is b:
        return True
    la, lb = a.length, b.length
    if isinstance(la, int) and isinstance(lb, int):
        if la != lb:
            return False
        return V.both(True, *[elem_eq(a.get(j), b.get(j)) for j in range(la)])
    for x, y in ((a, b), (b, a)):
        if isinstance(x.length, int):
            return V.both(V._cmp("==", y.length, x.length), *[elem_eq(x.get(j), y.get(j)) for j in range(x.length)])
    st = cur()
    j = z3.Int(st.fresh_name("q"))
    same_elems = z3.simplify(a.raw(j) == b.raw(j))
    if z3.is_true(same_elems):
        # the two element terms are the same term (texts built the same way from the same parts): no quantifier needed
        return V._cmp("==", la, lb)
    return V.both(V._cmp("==", la, lb), mk_bool(z3.ForAll([j], z3.Implies(z3.And(0 <= j, j < V._z(la)), a.raw(j) == b.raw(j)))))


def text_has(t, elem):
    """`elem in t` for a one-element needle: some position of t holds that element."""
    st = cur()
    j = z3.Int(st.fresh_name("q"))
    e = elem.e if isinstance(elem, SOpaque) else V._z(elem)
    return mk_bool(z3.Exists([j], z3.And(0 <= j, j < V._z(t.length), t.raw(j) == e)))


_HAS_SURR = z3.Function("Text.has_lone_surrogate", z3.IntSort(), z3.IntSort(), z3.IntSort(), z3.BoolSort())


def utf8_encoded(st, t):
    """Assumed model of `s.encode("utf-8")` for a base str text s — returns (bytes text, raises: Bool):
      * raises UnicodeEncodeError exactly when s holds a lone surrogate (an uninterpreted predicate of s);
      * otherwise a bytes text, the same one every time for the same s, with len(s) <= len(b) <= 4 * len(s), and —
        if s is not empty — a first byte that is not a UTF-8 continuation byte (10xxxxxx).
    Cross-checked against CPython by `xcheck_utf8_encode()`."""
    if isinstance(t, _Derived):
        raise Unsupported("utf-8 encoding of a derived text")
    cache = st.ghost.setdefault("utf8_of", {})
    key = (t.name, str(V._z(t.offset)), str(V._z(t.length)))
    if key not in cache:
        n = st.fresh_int(f"{t.name}$utf8_len")
        b = SText("bytes", n, st.fresh_name(f"{t.name}$utf8"))
        ln = V._z(t.length)
        b0 = b.f(z3.IntVal(0))
        st.assume(z3.And(n.e >= ln, n.e <= 4 * ln, z3.Implies(ln > 0, z3.And(b0 >= 0, b0 <= 255, z3.Not(z3.And(b0 >= 0x80, b0 <= 0xBF))))))
        bad = mk_bool(_HAS_SURR(z3.Int(f"{t.name}$id"), V._z(t.offset), ln))
        cache[key] = (b, bad)
    return cache[key]


CHAR_UPPER = z3.Function("Char.upper_id", CHAR, z3.IntSort())
CHAR_ISASCII = z3.Function("Char.isascii", CHAR, z3.BoolSort())


# ---------------------------------------------------------------------------------------- str predicates of one char
#
# `c.isdigit()`, `c.isdecimal()`, `c.isnumeric()`, `c.isalpha()`, ... of a single abstract character c (e.g. chr(k) for
# a symbolic byte k).  For code points 0..255 the answer is EXACTLY CPython's: a table taken from the running
# interpreter at import time (`CHAR_PRED_ORDS[name]` = the code points < 256 for which `chr(o).<name>()` is true — note
# that these are NOT the ASCII classes: '²' '³' '¹' are digits, '¼' '½' '¾' numeric, 'ª' 'º' 'µ' letters), written as a
# disjunction of ranges over `ord(c)`.  Above 255 the answer is an uninterpreted predicate of the character (nothing
# is claimed).  Cross-checked by `xcheck_char_predicates()`: the range formula evaluated by z3 at every code point
# 0..255 against CPython, and the table against the independent `unicodedata` definitions of the predicates.
CHAR_PREDICATES = ("isdigit", "isdecimal", "isnumeric", "isalpha", "isalnum", "isspace", "isupper", "islower", "isprintable")
CHAR_PRED_ORDS = {name: tuple(o for o in range(256) if getattr(chr(o), name)()) for name in CHAR_PREDICATES}
_CHAR_PRED_UF = {name: z3.Function(f"Char.{name}", CHAR, z3.BoolSort()) for name in CHAR_PREDICATES}


def _ranges(ords):
    out = []
    for o in ords:
        if out and out[-1][1] == o - 1:
            out[-1][1] = o
        else:
            out.append([o, o])
    return [(a, b) for a, b in out]


def char_pred_formula(name, o, above):
    """z3 Bool: `chr(o).<name>()` for the Int term o (a code point); `above` = the term used for o >= 256."""
    rs = [(o == a) if a == b else z3.And(o >= a, o <= b) for a, b in _ranges(CHAR_PRED_ORDS[name])]
    low = z3.Or(*rs) if rs else z3.BoolVal(False)
    return z3.If(o < 256, low, above)


def char_predicate(c, name):
    """`c.<name>()` for an opaque Char c (see above)."""
    o = V._z(char_ord(c))
    return mk_bool(char_pred_formula(name, o, _CHAR_PRED_UF[name](c.e)))


class CharProtocol:
    """Attribute protocol of the opaque kind 'Char' (a one-character str): the argument-less predicates of
    `CHAR_PREDICATES`; every other attribute stays Unsupported."""

    kind = "Char"

    def getattr(self, ip, st, obj, name):
        if name in CHAR_PREDICATES:
            from .protocol import OpaqueCall

            return OpaqueCall(obj, name, self)
        raise Unsupported(f"attribute {name} of opaque {self.kind}")

    def call(self, ip, st, recv, name, args, kwargs):
        if args or kwargs:
            from .engine import PyRaise, SExc

            raise PyRaise(SExc(TypeError, (f"str.{name}() takes no arguments",)))
        return char_predicate(recv, name)


def xcheck_char_predicates():
    """(ok, detail): the single-character predicate model agrees with CPython on every code point 0..255 (formula
    evaluated by z3 at the concrete code point), and the table agrees with the `unicodedata` definitions."""
    import unicodedata as U

    bad = []
    o = z3.Int("o")
    for name in CHAR_PREDICATES:
        f = char_pred_formula(name, o, z3.BoolVal(False))
        for k in range(256):
            got = z3.is_true(z3.simplify(z3.substitute(f, (o, z3.IntVal(k)))))
            if got != getattr(chr(k), name)():
                bad.append((name, k))
    indep = {
        "isdecimal": lambda ch: U.category(ch) == "Nd",
        "isdigit": lambda ch: U.digit(ch, None) is not None,
        "isnumeric": lambda ch: U.numeric(ch, None) is not None,
        "isalpha": lambda ch: U.category(ch) in ("Lu", "Ll", "Lt", "Lm", "Lo"),
    }
    for name, ref in indep.items():
        for k in range(256):
            if ref(chr(k)) != (k in CHAR_PRED_ORDS[name]):
                bad.append((name + "/unicodedata", k))
    ascii_digits = tuple(range(48, 58))
    if not (set(ascii_digits) < set(CHAR_PRED_ORDS["isdigit"]) and CHAR_PRED_ORDS["isdecimal"] == ascii_digits):
        bad.append(("ascii-digits", None))
    return (not bad, f"{len(CHAR_PREDICATES)} predicates x 256 code points; isdigit also true at {[k for k in CHAR_PRED_ORDS['isdigit'] if k > 57]}; mismatches: {bad[:4]}")


def isascii_of_text(st, t):
    """`s.isascii()` of a str: every character is ASCII (CPython: all code points < 128; True for '').  Being ASCII
    is an uninterpreted predicate of the opaque character (nothing else in the model depends on code points)."""
    n = t.length
    if isinstance(n, int):
        return V.both(*[mk_bool(CHAR_ISASCII(t.get(j).e)) for j in range(n)]) if n else True
    return V.forall(0, n, lambda j: mk_bool(CHAR_ISASCII(t.get(j).e)))


def upper_of_char_text(st, t):
    """Assumed model of `s.upper()` for a str s of exactly one character c (proved on the path; Unsupported
    otherwise): some str that is a function of c alone — the same text every time, identified by CHAR_UPPER(c);
    nothing is assumed about its length or contents (e.g. 'ß'.upper() == 'SS')."""
    n1 = t.length
    if not (isinstance(n1, int) and n1 == 1):
        r0, _m = st._check(V._z(n1) != 1, st.cfg.branch_timeout_ms)
        if r0 != z3.unsat:
            raise Unsupported("str.upper() of a text whose length is not known to be 1")
    c = t.get(0)
    cache = st.ghost.setdefault("upper_of", {})
    key = str(c.e)
    if key not in cache:
        n = st.fresh_int("upper_len")
        u = SText("str", n, st.fresh_name("upper"))
        st.assume(z3.And(n.e >= 0, z3.Int(f"{u.name}$id") == CHAR_UPPER(c.e)))
        cache[key] = u
    return cache[key]


def xcheck_utf8_encode():
    """CPython agrees with the assumed facts of `utf8_encoded` on a sample of strings (all planes, empty, surrogates)."""
    bad = []
    for s in ["", "a", "é", "中", "\U0001f600", "a中é", "\x00", "\x7f\x80", "\ud800", "a\udfff", "\uffff\U00010000"]:
        surr = any(0xD800 <= ord(c) <= 0xDFFF for c in s)
        try:
            b = s.encode("utf-8")
        except UnicodeEncodeError:
            if not surr:
                bad.append((s, "raised"))
            continue
        if surr or not (len(s) <= len(b) <= 4 * len(s)) or (s and 0x80 <= b[0] <= 0xBF):
            bad.append((s, b))
    return (not bad, f"mismatches {bad}" if bad else "str.encode('utf-8') agrees with the assumed model on the sample")


def xcheck_derived_texts():
    """Concrete cross-check of the derived-text terms against CPython: for small str and bytes operands build
    a + b, a[lo:hi], (a + b)[lo:hi] + c, c1 * n with the classes above, read every element back through z3 and
    compare with Python's own result.  Returns (ok, detail)."""
    from .engine import Config, Explorer, State

    ex = Explorer(Config())
    st = State(ex, [])
    V._current.append(st) if isinstance(getattr(V, "_current", None), list) else None
    bad = []
    try:
        def elems(t):
            n = t.length if isinstance(t.length, int) else z3.simplify(V._z(t.length)).as_long()
            out = []
            for i in range(n):
                e = t.get(z3_int(i))
                if t.kind == "bytes":
                    out.append(z3.simplify(V._z(e)).as_long())
                else:
                    out.append(z3.simplify(_ORD(e.e)))
            return n, out

        def z3_int(i):
            return SInt(z3.IntVal(i))

        def want(v):
            return list(v) if isinstance(v, bytes) else [ord(c) for c in v]

        samples = [("", "a", "bc"), ("ab", "", "c"), ("xy", "z", ""), (b"", b"\x80", b"ab"), (b"\xe4\xb8", b"\xad", b"q")]
        for a, b, c in samples:
            for lo in range(0, 4):
                for hi in range(0, 4):
                    py = (a + b)[lo:hi] + c
                    n0 = len(a + b)
                    l2, h2, _ = slice(lo, hi).indices(n0)
                    t = SConcat(SConcat(SConst(a), SConst(b)).slice(l2, max(l2, h2)), SConst(c))
                    st2 = st
                    st2.solver.push()
                    n, got = elems(t)
                    # characters: ORD(CHR(k)) == k is assumed by chr_of, so simplify under the solver's facts
                    if t.kind == "str":
                        vals = []
                        for g in got:
                            s = z3.Solver()
                            s.add(*st2.pc)
                            k = z3.Int("k")
                            s.add(k == g)
                            assert s.check() == z3.sat
                            vals.append(s.model().eval(k).as_long())
                        got = vals
                    st2.solver.pop()
                    if n != len(py) or got != want(py):
                        bad.append((a, b, c, lo, hi, got, want(py)))
        for c1, n in ((" ", 3), (" ", 0), (" ", -2), (b"0", 2), (b"\xe2\x94\x80", 3), (b"ab", 0), (b"ab", -1), (b"", 4), (b"abc", 1)):
            # (constant count and a symbolic count equated to it; multi-element units read back element by element)
            for sym in (False, True):
                st.solver.push()
                cnt = n
                if sym:
                    cnt = st.fresh_int("cnt")
                    st.solver.add(cnt.e == n)
                t = SRepeat(SConst(c1), cnt)
                zl = z3.simplify(V._z(t.length)) if not isinstance(t.length, int) else z3.IntVal(t.length)
                s2 = z3.Solver()
                s2.add(*st.solver.assertions())
                want_v = want(c1 * n)
                diffs = [V._z(t.get(z3_int(i))) != want_v[i] for i in range(len(want_v))] if t.kind == "bytes" else []
                s2.add(z3.Or(zl != len(want_v), *diffs))
                if s2.check() != z3.unsat:
                    bad.append(("repeat", c1, n, sym))
                st.solver.pop()
    finally:
        if isinstance(getattr(V, "_current", None), list) and V._current and V._current[-1] is st:
            V._current.pop()
    return (not bad, f"{len(bad)} mismatches: {bad[:3]}" if bad else "derived text terms agree with CPython on the sample")


# ---------------------------------------------------------------------------------------------
# str.find / bytes.find with a one-element needle (added for C03: `text.find(nl, idx)` in calculate_text_segments)


def find_spec(s, c, start, r):
    """Executable specification of `r == s.find(c, start)` for a one-element needle c (plain str / bytes values):
    CPython normalises start like a slice bound (negative: + len, clamped at 0); the result is the least index >= start
    holding c, or -1 when there is none (in particular when start > len)."""
    n = len(s)
    s0 = max(start + n, 0) if start < 0 else start
    hits = [k for k in range(min(s0, n), n) if s[k : k + 1] == c] if s0 <= n else []
    return r == (hits[0] if hits else -1)


def text_find(st, t, needle, start=0):
    """Model of `t.find(needle, start)` on a modelled text, needle of exactly one element: a fresh integer r with
        r == -1  and no element of t[start':] equals the needle,   or
        start' <= r < len(t), t[r] == needle and no element of t[start':r] equals it
    (start' = start normalised as CPython does; the two "no element ... equals" parts are lazily instantiated
    universal facts).  Cross-checked against CPython by `xcheck_find()`."""
    nd = as_text(needle)
    if nd is None or nd.kind != t.kind:
        raise Unsupported("find: needle of another kind than the text")
    if not (isinstance(nd.length, int) and nd.length == 1):
        raise Unsupported("find with a needle that is not a single element")
    c = nd.get(0)
    n = t.length
    start = st.force(start)
    s0 = V.ite(V._cmp("<", start, 0), V.imax(start + n, 0), start) if V.is_sym(start) else (start if start >= 0 else V.imax(start + n, 0))
    r = st.fresh_int("find")
    differs = lambda k: V.neg(elem_eq(t.get(k), c))  # noqa: E731
    hit = V.both(V._cmp("<=", s0, r), V._cmp("<", r, n), elem_eq(t.get(r), c))
    st.assume(V.either(r == -1, hit))
    # "no element before the result (none at all when it is -1) equals the needle": recorded as a lazily instantiated
    # universal fact (values.lazy_forall; `values.instantiate(k...)` asserts its instances at the indices in play), so
    # that path conditions stay quantifier-free (DESIGN 3.7)
    V.lazy_forall(s0, V.ite(r == -1, n, r), differs)
    return r


def xcheck_find():
    """`find_spec` agrees with CPython's str.find / bytes.find for every text over a two-letter alphabet up to length 4,
    every start in -6..6 and every candidate result; and the SMT model `text_find` built on constant texts admits
    exactly CPython's result (checked with z3 on a sample)."""
    import itertools

    bad = []
    for kind, alpha, c in (("str", "a\n", "\n"), ("bytes", b"a\n", b"\n")):
        letters = [alpha[i : i + 1] for i in range(len(alpha))]
        for n in range(5):
            for tup in itertools.product(letters, repeat=n):
                s = (b"" if kind == "bytes" else "").join(tup)
                for start in range(-6, 7):
                    want = s.find(c, start)
                    for r in range(-2, n + 2):
                        if find_spec(s, c, start, r) != (r == want):
                            bad.append((s, start, r, want))
    from .engine import Config, Explorer, State

    for s, start in (("a\nb\n", 0), ("a\nb\n", 2), ("ab", 0), ("", 0), ("\n", -1), ("ab\n", 5), ("a\nb", -2)):
        ex = Explorer(Config())
        st = State(ex, [])
        V._current.append(st)
        try:
            r = text_find(st, SConst(s), "\n", start)
            want = s.find("\n", start)
            V.instantiate(*range(len(s) + 1))  # the lazily recorded "no earlier occurrence" facts, at every index
            ok_want, _ = st._check(V._z(r) == want, 2000)
            other, _ = st._check(V._z(r) != want, 2000)
            if ok_want != z3.sat or other != z3.unsat:
                bad.append(("smt", s, start, want, str(ok_want), str(other)))
        finally:
            V._current.pop()
    return (not bad, f"{len(bad)} mismatches: {bad[:3]}" if bad else "find model agrees with CPython on the scope")
