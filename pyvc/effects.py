"""Invalidate-on-write effect obligations (C06), computed path-sensitively on the real ASTs.

For a widget class C (methods resolved through the real MRO, ASTs re-read from /repo):
  RS(C)  = attributes `self.X` read, transitively through `self.m()` calls and `self.p` property reads,
           by the render-path methods (render, rows, pack, get_cursor_coords, get_pref_col, selectable, sizing);
  mutator = a public method or property setter of C's own class body that is not itself on the render path.
Obligation per (class, mutator): on every normal-exit path of the mutator that assigns an attribute in
RS(C) (directly, or through a callee/setter that does), `self._invalidate()` is called on that path
(directly, or through a callee/setter that always does).  Exceptional exits are not constrained.

The path enumeration abstracts values away: both arms of every `if`, zero or one iteration of loops,
`try` bodies with and without the handlers; this over-approximates the set of paths, so a reported
path may be infeasible — each exemption needed on the unchanged tree is written down with its reason.
"""
from __future__ import annotations

import ast
import inspect

from . import source as SRC

RENDER_PATH = ("render", "rows", "pack", "get_cursor_coords", "selectable", "sizing")
# attributes holding a MonitoredList / list walker: mutating the object they hold fires its modified
# callback, which the owning widget connected to _invalidate (C16 "modified fires once per mutation",
# C08 "_contents_modified invalidates", ListBox.body setter connects "modified" -> _invalidate)
MONITORED = ("_contents", "contents", "_body", "body")
MUTATORS = ("append", "extend", "insert", "pop", "remove", "sort", "reverse", "clear", "set_focus", "__setitem__", "__delitem__", "__iadd__", "__imul__")
INVALIDATORS = ("_invalidate",)


def find_local_class(mod, qualname):
    """ClassDef of a class created inside a function (`f.<locals>.C`, e.g. the mixin returned by
    `delegate_to_widget_mixin`): descend through function and class bodies by name."""
    body, node = mod.tree.body, None
    for part in qualname.split("."):
        if part == "<locals>":
            continue
        node = next((n for n in body if isinstance(n, (ast.ClassDef, ast.FunctionDef)) and n.name == part), None)
        if node is None:
            return None
        body = node.body
    return node if isinstance(node, ast.ClassDef) else None


class ClassInfo:
    def __init__(self, cls, local_classes=False):
        self.cls = cls
        self.methods = {}  # name -> (FnRef, role)
        for c in reversed(cls.__mro__):
            m = SRC.module_of_real(c.__module__)
            if m is None:
                continue
            cnode = SRC.find_class(m, c.__qualname__)
            if cnode is None and local_classes and "<locals>" in c.__qualname__:
                cnode = find_local_class(m, c.__qualname__)
            if cnode is None:
                continue
            for fn in SRC._class_body_defs(cnode.body):
                if SRC._is_overload(fn):
                    continue
                decs = [ast.unparse(d) for d in fn.decorator_list]
                role = "setter" if any(d == f"{fn.name}.setter" for d in decs) else ("getter" if any(d in ("property", "functools.cached_property") for d in decs) else "function")
                self.methods[(fn.name, role)] = SRC.FnRef(m, fn, f"{c.__qualname__}.{fn.name}", c.__qualname__, role)
            # properties defined by assignment: name = property(getter, setter)
            for n in cnode.body:
                if isinstance(n, ast.Assign) and isinstance(n.value, ast.Call) and ast.unparse(n.value.func) == "property":
                    for t in n.targets:
                        if isinstance(t, ast.Name):
                            args = n.value.args
                            for role, idx in (("getter", 0), ("setter", 1)):
                                if len(args) > idx and isinstance(args[idx], ast.Name):
                                    ref = self.methods.get((args[idx].id, "function"))
                                    if ref is not None:
                                        self.methods[(t.id, role)] = ref

    def method(self, name, role="function"):
        return self.methods.get((name, role))


def _self_name(fn_node):
    a = fn_node.args.posonlyargs + fn_node.args.args
    return a[0].arg if a else "self"


def reads_of(info: ClassInfo, roots):
    """Attributes of self read on the render path (transitive)."""
    seen, todo, reads, visited_methods = set(), list(roots), set(), set()
    while todo:
        key = todo.pop()
        if key in seen:
            continue
        seen.add(key)
        ref = info.methods.get(key)
        if ref is None:
            continue
        visited_methods.add(key)
        me = _self_name(ref.node)
        for n in ast.walk(ref.node):
            if isinstance(n, ast.Attribute) and isinstance(n.value, ast.Name) and n.value.id == me and isinstance(n.ctx, ast.Load):
                if (n.attr, "function") in info.methods:
                    todo.append((n.attr, "function"))
                elif (n.attr, "getter") in info.methods:
                    todo.append((n.attr, "getter"))
                else:
                    reads.add(n.attr)
    return reads, visited_methods


class _Summary:
    """Per path: (writes an RS attribute?, invalidates?)"""


def path_outcomes(info: ClassInfo, ref, rs, summaries, depth=0):
    """Set of (writes_rs, invalidates, written_attrs) over the normal-exit paths of the method."""
    me = _self_name(ref.node)

    def merge(o, c):
        return (o[0] or c[0], o[1] or c[1], o[2] | c[2])

    def call_outcomes(label):
        if label in INVALIDATORS:
            return {(False, True, frozenset())}
        if label in summaries:
            return summaries[label]
        return None

    def expr_effects(e):
        """Possible (writes, invalidates, attrs) contributions of the calls inside an expression."""
        outs = {(False, False, frozenset())}
        for n in ast.walk(e):
            if not isinstance(n, ast.Call) or not isinstance(n.func, ast.Attribute):
                continue
            f = n.func
            if (f.attr in MUTATORS and isinstance(f.value, ast.Attribute) and isinstance(f.value.value, ast.Name)
                    and f.value.value.id == me and f.value.attr in MONITORED):
                outs = {merge(o, (True, True, frozenset([f.value.attr]))) for o in outs}
                continue
            is_self = isinstance(f.value, ast.Name) and f.value.id == me
            is_super = isinstance(f.value, ast.Call) and ast.unparse(f.value.func) == "super"
            if is_self or is_super:
                co = call_outcomes(f.attr)
                if co:
                    outs = {merge(o, c) for o in outs for c in co}
        return outs

    def target_effects(t):
        outs = {(False, False, frozenset())}
        if isinstance(t, ast.Attribute) and isinstance(t.value, ast.Name) and t.value.id == me:
            if (t.attr, "setter") in info.methods:
                co = call_outcomes("set:" + t.attr)
                if co:
                    outs = {merge(o, c) for o in outs for c in co}
            elif t.attr in rs:
                outs = {(True, False, frozenset([t.attr]))}
        elif isinstance(t, (ast.Tuple, ast.List)):
            for e in t.elts:
                outs = {merge(o, c) for o in outs for c in target_effects(e)}
        elif isinstance(t, ast.Subscript):
            b_ = t.value
            if isinstance(b_, ast.Attribute) and isinstance(b_.value, ast.Name) and b_.value.id == me and b_.attr in MONITORED:
                outs = {(True, True, frozenset([b_.attr]))}
            elif isinstance(b_, ast.Attribute) and isinstance(b_.value, ast.Name) and b_.value.id == me and b_.attr in rs:
                outs = {(True, False, frozenset([b_.attr]))}
        return outs

    def combine(states, effs):
        return {merge(st_, c) for st_ in states for c in effs}

    def run(stmts, states):
        """returns (fallthrough states, returned states)"""
        returned = set()
        for s in stmts:
            if not states:
                break
            if isinstance(s, (ast.Assign, ast.AugAssign, ast.AnnAssign)):
                if getattr(s, "value", None) is not None:
                    states = combine(states, expr_effects(s.value))
                for t in (s.targets if isinstance(s, ast.Assign) else [s.target]):
                    states = combine(states, target_effects(t))
            elif isinstance(s, ast.Expr):
                states = combine(states, expr_effects(s.value))
            elif isinstance(s, ast.Return):
                if s.value is not None:
                    states = combine(states, expr_effects(s.value))
                returned |= states
                states = set()
            elif isinstance(s, ast.Raise):
                states = set()
            elif isinstance(s, ast.If):
                st0 = combine(states, expr_effects(s.test))
                a, ra = run(s.body, set(st0))
                b, rb = run(s.orelse, set(st0))
                returned |= ra | rb
                states = a | b
            elif isinstance(s, (ast.For, ast.While)):
                st0 = combine(states, expr_effects(s.iter if isinstance(s, ast.For) else s.test))
                a, ra = run(s.body, set(st0))
                returned |= ra
                once = a | st0
                b, rb = run(s.orelse, set(once))
                returned |= rb
                states = b | once
            elif isinstance(s, ast.Try):
                a, ra = run(s.body, set(states))
                returned |= ra
                outs = set(a)
                for h in s.handlers:
                    hb, rh = run(h.body, set(states) | a)
                    returned |= rh
                    outs |= hb
                e, re_ = run(s.orelse, set(a))
                returned |= re_
                outs = (outs - a) | e if s.orelse else outs
                if s.finalbody:
                    f, rf = run(s.finalbody, outs)
                    returned |= rf
                    fr, _ = run(s.finalbody, returned)
                    returned = fr
                    outs = f
                states = outs
            elif isinstance(s, ast.With):
                for it in s.items:
                    states = combine(states, expr_effects(it.context_expr))
                a, ra = run(s.body, states)
                returned |= ra
                states = a
            elif isinstance(s, ast.Delete):
                for t in s.targets:
                    states = combine(states, target_effects(t))
            elif isinstance(s, (ast.Pass, ast.FunctionDef, ast.Import, ast.ImportFrom, ast.Assert, ast.Global, ast.Nonlocal, ast.Break, ast.Continue)):
                pass
            else:
                for n in ast.iter_child_nodes(s):
                    if isinstance(n, ast.expr):
                        states = combine(states, expr_effects(n))
        return states, returned

    start = {(False, False, frozenset())}
    fall, ret = run(ref.node.body, start)
    return fall | ret


def analyse_class(cls, exempt=None):
    """Returns list of (method label, ok, detail) obligations for `cls`'s own mutators."""
    exempt = exempt or {}
    info = ClassInfo(cls)
    roots = [(m, "function") for m in RENDER_PATH] + [(m, "getter") for m in RENDER_PATH]
    rs, render_methods = reads_of(info, roots)
    rs -= {"_invalidate", "_emit", "logger", "_command_map", "__class__"}
    # fixpoint over per-method outcome summaries: label -> set of (writes RS?, invalidates?, attrs) per path
    summaries: dict = {}
    names = {}
    for (name, role), ref in info.methods.items():
        if role == "getter" or (name, role) in render_methods:
            continue
        names[("set:" + name) if role == "setter" else name] = ref
    for _ in range(8):
        changed = False
        for label, ref in names.items():
            outs = path_outcomes(info, ref, rs, summaries)
            # keep summaries small: forget which attributes, keep the (w, i) pairs
            outs = {(w, i, a) for (w, i, a) in outs}
            if summaries.get(label) != outs:
                summaries[label] = outs
                changed = True
        if not changed:
            break
    results = []
    own = set()
    m = SRC.module_of_real(cls.__module__)
    cnode = SRC.find_class(m, cls.__qualname__) if m else None
    if cnode is not None:
        for fn in SRC._class_body_defs(cnode.body):
            own.add(fn.name)
    for label, ref in sorted(names.items()):
        pub = label[4:] if label.startswith("set:") else label
        if ref.node.name not in own and pub not in own:
            continue
        if pub.startswith("_") or pub in ("__init__",):
            continue
        outs = path_outcomes(info, ref, rs, summaries)
        bad = sorted({tuple(sorted(a)) for (w, i, a) in outs if w and not i})
        key = f"{cls.__name__}.{label}"
        if bad and key in exempt:
            results.append((key, True, f"EXEMPT ({exempt[key]}): writes {bad} without invalidating"))
        else:
            results.append((key, not bad, f"a normal-exit path writes render state {bad} without calling _invalidate()" if bad else "every path that writes render state invalidates"))
    return results, sorted(rs)


# =============================================================================================
# Dependency registration of container render methods (C06, second family of static obligations)
# =============================================================================================
"""
For a container / decoration class C, `render` resolved through the real MRO (AST re-read from /repo):

  on every normal-exit path of render, the returned canvas DEPENDS ON every child widget whose state the
  rendering consulted on that path.

consulted(child)  = `child.render / rows / pack / get_cursor_coords / get_pref_col (...)` was called, directly,
                    through a `self.m(...)` / `super().m(...)` helper (followed path-sensitively, context-insensitively)
                    or through a nested function.
depends on(child) = what `CanvasCache.store` will find for the returned canvas:
                    - an explicit `canv.set_depends([...])` naming the child (this REPLACES everything else, as in
                      store: `depends_on = getattr(canvas, "depends_on", None)` is consulted first), or
                    - composition: the canvas is the child's own canvas, or CompositeCanvas(c) / CanvasCombine(l) /
                      CanvasJoin(l) / CanvasOverlay(a, b) built from canvases that depend on the child (the child
                      canvas keeps its `widget_info`, which `walk_depends` collects).
                    A fresh SolidCanvas / TextCanvas / BlankCanvas depends on nothing.

Children are abstracted to GROUPS: the `self.<attr>` a child expression is read from (`original_widget`,
`header`, `top_w`, `contents`, ...; a leading underscore is dropped so a property and its backing field agree),
"delegate" for WidgetWrap's `get_delegate(self)`, and "*" for a child of unknown provenance (a local that was not
bound from `self`). A temporary wrapper widget built around a child (`Filler(self.header, ...)`) stands for it.

Elements of a child collection: inside a `for` loop whose iterable mentions a `self.<attr>` the loop variables
stand for ONE element (`contents@L<line>`). If the element (or, before the loop, its whole group) was consulted
and some path through the loop body (fall-through or `continue`) registers no canvas of this element in any
list / canvas, then the returned canvas must depend on ALL elements explicitly (`set_depends` with a list over the
whole collection): otherwise the skipped element was consulted without a dependency — the "hidden zero-size
child" case.

The path enumeration abstracts values away exactly like `path_outcomes` above (both arms of every `if`, zero or
one iteration of every loop, `try` bodies with and without handlers), with one refinement: a helper that returns
the constant `None` (or a tuple whose first item is `None`) on some path is correlated with a test
`x is None` / `x is not None` / `not x` / `x` on the variable bound to that result, and the answer of a test
`self.X is None` / `is not None` is a fact of the path shared with the `self.` helpers called on it.
Over-approximation => a reported path may be infeasible; exemptions needed on the tree are written in the
contract file with their reason. Under-approximation (stated): child calls made inside property getters and in
functions of other modules are not seen; GC lifetime of weakly referenced canvases is out of scope.
"""

CONSULT = ("render", "rows", "pack", "get_cursor_coords", "get_pref_col")
LEAF_CANVAS = ("SolidCanvas", "TextCanvas", "BlankCanvas")
COMPOSE_ONE = ("CompositeCanvas",)
COMPOSE_LIST = ("CanvasCombine", "CanvasJoin")
COMPOSE_ARGS = ("CanvasOverlay",)
LIST_ADD = ("append", "extend", "insert")
GROUP_ALIAS = {"w": "delegate", "widget_list": "contents", "focus": "contents", "focus_item": "contents", "item_types": "contents"}

_NONE = ("none",)
_VAL = ("val",)  # some value that is not None
PASS_THROUGH = ("reversed", "list", "tuple", "sorted", "enumerate", "zip", "iter")


def _group_name(attr):
    g = attr.lstrip("_")
    return GROUP_ALIAS.get(g, g)


def _callee_name(f):
    """Plain or module-qualified name of a called constructor: CompositeCanvas / canvas.CompositeCanvas."""
    if isinstance(f, ast.Name):
        return f.id
    if isinstance(f, ast.Attribute) and isinstance(f.value, ast.Name) and f.value.id in ("canvas", "urwid"):
        return f.attr
    return None


class _DState:
    __slots__ = ("env", "consulted", "need_all", "fns", "_line")

    def __init__(self, env=None, consulted=frozenset(), need_all=frozenset(), fns=None):
        self._line = None
        self.env = dict(env or {})
        self.consulted = frozenset(consulted)
        self.need_all = frozenset(need_all)
        self.fns = dict(fns or {})

    def copy(self):
        return _DState(self.env, self.consulted, self.need_all, self.fns)

    def key(self):
        return (frozenset(self.env.items()), self.consulted, self.need_all, frozenset(self.fns))


def _dedupe(states):
    seen, out = set(), []
    for s in states:
        k = s.key()
        if k not in seen:
            seen.add(k)
            out.append(s)
    return out


class DepAnalysis:
    """Path-sensitive dependency analysis of one class (see the comment block above)."""

    MAX_STATES = 4000

    def __init__(self, cls):
        self.cls = cls
        self.info = ClassInfo(cls, local_classes=True)
        self.memo = {}
        self.active = set()
        self.violations = []  # (line, kind, groups)
        self.refs = {}
        self.returns_seen = 0

    # ---- child / value abstraction
    def child_group(self, e, st, me):
        """Group of a child-widget expression, or None if the expression does not look like one."""
        if isinstance(e, ast.Name):
            v = st.env.get(e.id)
            if v and v[0] == "child":
                return v[1]
            return None
        if isinstance(e, ast.Call):
            nm = _callee_name(e.func)
            if nm == "get_delegate":
                return "delegate"
            if nm and nm[:1].isupper():
                for a in list(e.args) + [k.value for k in e.keywords]:
                    g = self.child_group(a, st, me)
                    if g:
                        return g  # a temporary wrapper around a child stands for the child
                return None
        for n in ast.walk(e):
            if isinstance(n, ast.Attribute) and isinstance(n.value, ast.Name) and n.value.id == me:
                if (n.attr, "function") in self.info.methods:
                    continue
                return _group_name(n.attr)
            if isinstance(n, ast.Name):
                v = st.env.get(n.id)
                if v and v[0] == "child":
                    return v[1]
        return None

    @staticmethod
    def deps_of(v):
        if not v:
            return frozenset()
        if v[0] == "canv":
            return v[1]
        if v[0] == "list":
            return v[1]
        if v[0] == "tuple":
            out = frozenset()
            for x in v[1]:
                out |= DepAnalysis.deps_of(x)
            return out
        return frozenset()

    @staticmethod
    def kids_of(v):
        if not v:
            return frozenset()
        if v[0] == "child":
            return frozenset([v[1]])
        if v[0] == "list":
            return v[2]
        if v[0] == "tuple":
            out = frozenset()
            for x in v[1]:
                out |= DepAnalysis.kids_of(x)
            return out
        return frozenset()

    # ---- expressions: returns list of (state, value)
    def ev(self, e, st, me, ref):
        if e is None:
            return [(st, None)]
        if isinstance(e, ast.Constant):
            return [(st, _NONE if e.value is None else _VAL)]
        if isinstance(e, ast.Name):
            return [(st, st.env.get(e.id))]
        if isinstance(e, ast.NamedExpr):
            out = []
            for s, v in self.ev(e.value, st, me, ref):
                s = s.copy()
                self.bind(e.target, v, s)
                out.append((s, v))
            return out
        if isinstance(e, (ast.Tuple, ast.List)):
            res = [(st, [])]
            for x in e.elts:
                inner = x.value if isinstance(x, ast.Starred) else x
                nxt = []
                for s, acc in res:
                    for s2, v in self.ev(inner, s, me, ref):
                        if v is None:
                            g = self.child_group(inner, s2, me) if isinstance(inner, (ast.Attribute, ast.Subscript)) else None
                            v = ("child", g) if g else None
                        nxt.append((s2, acc + [v]))
                res = nxt
            out = []
            for s, acc in res:
                if isinstance(e, ast.List):
                    d, k = frozenset(), frozenset()
                    for v in acc:
                        d |= self.deps_of(v)
                        k |= self.kids_of(v)
                    out.append((s, ("list", d, k, len(acc) == 0)))
                else:
                    out.append((s, ("tuple", tuple(acc))))
            return out
        if isinstance(e, ast.Dict) and not e.keys:
            return [(st, ("list", frozenset(), frozenset(), True))]  # an empty dict: an accumulator like a list
        if isinstance(e, (ast.ListComp, ast.GeneratorExp, ast.SetComp)):
            s = st.copy()
            whole = None
            for g in e.generators:
                grp = self.child_group(g.iter, s, me)
                for s_, _v in self.ev(g.iter, s, me, ref):
                    s = s_
                if grp and not g.ifs:
                    whole = grp
                for n in ast.walk(g.target):
                    if isinstance(n, ast.Name):
                        s.env[n.id] = ("child", grp or "*") if grp or True else None
            outs = []
            for s2, v in self.ev(e.elt, s, me, ref):
                d, k = self.deps_of(v), self.kids_of(v)
                if whole:
                    # an unfiltered comprehension over the whole collection names ALL its elements
                    k = frozenset((x + ":all") if x == whole else x for x in k)
                    d = frozenset((x + ":all") if x == whole else x for x in d)
                s3 = st.copy()
                s3.consulted, s3.need_all = s2.consulted, s2.need_all
                outs.append((s3, ("list", d, k, None)))
            return outs
        if isinstance(e, ast.IfExp):
            out = []
            for s, _t in self.ev(e.test, st, me, ref):
                out += self.ev(e.body, s.copy(), me, ref) + self.ev(e.orelse, s.copy(), me, ref)
            return out
        if isinstance(e, ast.BoolOp):
            # short-circuit: the operands evaluated are a prefix; value = last evaluated
            out, cur = [], [(st, None)]
            for x in e.values:
                nxt = []
                for s, _v in cur:
                    nxt += self.ev(x, s.copy(), me, ref)
                out += nxt
                cur = nxt
            return out
        if isinstance(e, ast.Call):
            return self.ev_call(e, st, me, ref)
        if isinstance(e, ast.Attribute):
            res = self.ev(e.value, st, me, ref) if not isinstance(e.value, ast.Name) else [(st, None)]
            return [(s, None) for s, _ in res]
        if isinstance(e, ast.Subscript):
            out = []
            for s, v in self.ev(e.value, st, me, ref):
                for s2, _i in self.ev(e.slice, s, me, ref):
                    if v and v[0] == "list":
                        out.append((s2, ("list", v[1], v[2], None)))
                    elif v and v[0] == "tuple" and isinstance(e.slice, ast.Constant) and isinstance(e.slice.value, int) and -len(v[1]) <= e.slice.value < len(v[1]):
                        out.append((s2, v[1][e.slice.value]))
                    else:
                        out.append((s2, None))
            return out
        # any other expression: evaluate sub-expressions for their calls
        res = [(st, None)]
        for c in ast.iter_child_nodes(e):
            if isinstance(c, ast.expr):
                nxt = []
                for s, _ in res:
                    nxt += [(s2, None) for s2, _v in self.ev(c, s, me, ref)]
                res = nxt
        return res

    def ev_args(self, call, st, me, ref):
        res = [(st, [])]
        for a in list(call.args) + [k.value for k in call.keywords]:
            inner = a.value if isinstance(a, ast.Starred) else a
            nxt = []
            for s, acc in res:
                for s2, v in self.ev(inner, s, me, ref):
                    nxt.append((s2, acc + [v]))
            res = nxt
        return res

    def ev_call(self, e, st, me, ref):
        f = e.func
        nm = _callee_name(f)
        out = []
        # canvas constructors
        if nm in LEAF_CANVAS:
            return [(s, ("canv", frozenset())) for s, _ in self.ev_args(e, st, me, ref)]
        if nm in COMPOSE_ONE or nm in COMPOSE_LIST or nm in COMPOSE_ARGS:
            for s, vals in self.ev_args(e, st, me, ref):
                d = frozenset()
                for v in vals:
                    d |= self.deps_of(v)
                out.append((s, ("canv", d)))
            return out
        if nm in PASS_THROUGH:
            for s, vals in self.ev_args(e, st, me, ref):
                d, k = frozenset(), frozenset()
                for v in vals:
                    d |= self.deps_of(v)
                    k |= self.kids_of(v)
                out.append((s, ("list", d, k, None) if (d or k) else _VAL))
            return out
        if nm and nm[:1].isupper() and isinstance(f, ast.Name) and self.child_group(e, st, me) is None:
            # some other constructor (a NamedTuple of results ...): a value that is not None; its arguments are kept
            return [(s, ("tuple", tuple(v if v is not None else _VAL for v in vals))) for s, vals in self.ev_args(e, st, me, ref)]
        # nested function / local callable
        if isinstance(f, ast.Name) and f.id in st.fns:
            for s, _vals in self.ev_args(e, st, me, ref):
                out += self.call_nested(st.fns[f.id], s, me, ref)
            return out
        if isinstance(f, ast.Attribute):
            recv = f.value
            is_self = isinstance(recv, ast.Name) and recv.id == me
            is_super = isinstance(recv, ast.Call) and isinstance(recv.func, ast.Name) and recv.func.id == "super"
            if is_self or is_super:
                for s, vals in self.ev_args(e, st, me, ref):
                    npos = len(e.args)
                    out += self.call_method(f.attr, is_super, s, ref, vals[:npos], {k.arg: v for k, v in zip(e.keywords, vals[npos:]) if k.arg})
                return out
            if (f.attr in LIST_ADD and isinstance(recv, ast.Call) and isinstance(recv.func, ast.Attribute) and recv.func.attr == "setdefault"
                    and isinstance(recv.func.value, ast.Name) and (st.env.get(recv.func.value.id) or (None,))[0] == "list"):
                # d.setdefault(key, []).append(x): the dict of lists accumulates like one list
                nm_ = recv.func.value.id
                for s2, vals in self.ev_args(e, st, me, ref):
                    s2 = s2.copy()
                    cur = s2.env[nm_]
                    d, k = cur[1], cur[2]
                    for v in vals:
                        d |= self.deps_of(v)
                        k |= self.kids_of(v)
                    s2.env[nm_] = ("list", d, k, False)
                    out.append((s2, None))
                return out
            # receiver evaluation (may itself contain calls)
            rres = self.ev(recv, st, me, ref)
            for s, rv in rres:
                for s2, vals in self.ev_args(e, s, me, ref):
                    s2 = s2.copy()
                    if rv and rv[0] == "canv" and f.attr == "set_depends":
                        k = frozenset()
                        for v in vals:
                            k |= self.kids_of(v)
                        tgt = recv.id if isinstance(recv, ast.Name) else None
                        if tgt:
                            s2.env[tgt] = ("canv", k)
                        out.append((s2, None))
                        continue
                    if rv and rv[0] == "list" and f.attr in LIST_ADD and isinstance(recv, ast.Name):
                        d, k = rv[1], rv[2]
                        for v in vals:
                            d |= self.deps_of(v)
                            k |= self.kids_of(v)
                        for a in e.args:
                            g = self.child_group(a, s2, me) if isinstance(a, (ast.Attribute, ast.Name)) else None
                            if g:
                                k |= {g}
                        s2.env[recv.id] = ("list", d, k, False)
                        out.append((s2, None))
                        continue
                    if f.attr in CONSULT and not (rv and rv[0] in ("canv", "list", "tuple")):
                        g = self.child_group(recv, s2, me)
                        if g is None:
                            g = "*"
                        s2.consulted = s2.consulted | {g}
                        out.append((s2, ("canv", frozenset([g])) if f.attr == "render" else None))
                        continue
                    out.append((s2, None))
            return out
        # any other call: arguments only
        return [(s, None) for s, _ in self.ev_args(e, st, me, ref)]

    # ---- calls into the class
    def call_method(self, name, is_super, st, ref, args=(), kwargs=None):
        if is_super:
            target = None
            defcls = (getattr(ref, "cls_qual", None) or "").split(".<")[0]
            mro = list(self.cls.__mro__)
            idx = next((i for i, c in enumerate(mro) if c.__qualname__ == defcls), None)
            if idx is not None:
                sub = ClassInfo.__new__(ClassInfo)
                sub.cls, sub.methods = self.cls, {}
                for c in mro[idx + 1 :]:
                    ci = self._class_methods(c)
                    if (name, "function") in ci:
                        target = ci[(name, "function")]
                        break
        else:
            target = self.info.method(name)
        if target is None:
            return [(st, None)]
        # abstract arguments that matter (canvases, children, lists of them, None) are bound to the parameters
        a = target.node.args
        params = [p.arg for p in a.posonlyargs + a.args][1:]
        binding = {}
        for pn, v in zip(params, args):
            if v is not None:
                binding[pn] = v
        for k, v in (kwargs or {}).items():
            if v is not None and (k in params or k in [p.arg for p in a.kwonlyargs]):
                binding[k] = v
        for k, v in st.env.items():
            if k.startswith("self."):
                binding[k] = v  # facts about self's attributes hold in the helper too
        outs = self.outcomes(target, binding)
        res = []
        for consulted, need_all, rv, facts in outs:
            if any(st.env.get(k) is not None and st.env[k] != v for k, v in facts):
                continue  # the helper's path assumed the opposite about an attribute of self
            s = st.copy()
            s.consulted |= consulted
            s.need_all |= need_all
            for k, v in facts:
                s.env[k] = v
            res.append((s, rv))
        return res or []

    def call_nested(self, node, st, me, ref):
        s0 = st.copy()
        fall, ret = self.run(node.body, [s0], me, ref, check_elems=True, nested=True)
        res = []
        for s, v in ret:
            s2 = st.copy()
            s2.consulted, s2.need_all = s.consulted, s.need_all
            res.append((s2, v))
        for s in fall:
            s2 = st.copy()
            s2.consulted, s2.need_all = s.consulted, s.need_all
            res.append((s2, _NONE))
        return res

    def _class_methods(self, c):
        """(name, role) -> FnRef of the methods defined in the body of one class of the MRO (local classes too)."""
        cache = self.__dict__.setdefault("_cm", {})
        if c not in cache:
            d = {}
            m = SRC.module_of_real(c.__module__)
            cnode = None
            if m is not None:
                cnode = SRC.find_class(m, c.__qualname__) or (find_local_class(m, c.__qualname__) if "<locals>" in c.__qualname__ else None)
            if cnode is not None:
                for fn in SRC._class_body_defs(cnode.body):
                    if SRC._is_overload(fn):
                        continue
                    decs = [ast.unparse(x) for x in fn.decorator_list]
                    role = "setter" if any(x == f"{fn.name}.setter" for x in decs) else ("getter" if any(x in ("property", "functools.cached_property") for x in decs) else "function")
                    d[(fn.name, role)] = SRC.FnRef(m, fn, f"{c.__qualname__}.{fn.name}", c.__qualname__, role)
            cache[c] = d
        return cache[c]

    def outcomes(self, ref, binding=None):
        """Per-path outcomes of a method: set of (consulted groups, need_all groups, abstract return value)."""
        binding = binding or {}
        k = (ref.key, frozenset(binding.items()))
        if k in self.memo:
            return self.memo[k]
        if k in self.active:
            return {(frozenset(), frozenset(), None, frozenset())}
        self.refs[ref.key] = ref
        self.active.add(k)
        try:
            me = _self_name(ref.node)
            is_render = ref.node.name == "render"
            fall, ret = self.run(ref.node.body, [_DState(env=binding)], me, ref, check_elems=is_render)
            outs = set()
            for s, v in ret:
                if is_render:
                    v = self.check_return(s, v, ref, getattr(s, "_line", ref.node.lineno))
                outs.add((s.consulted, s.need_all if not is_render else frozenset(), self._ret_abs(v), self._facts(s)))
            for s in fall:
                outs.add((s.consulted, s.need_all, _NONE, self._facts(s)))
        finally:
            self.active.discard(k)
        self.memo[k] = outs
        return outs

    @staticmethod
    def _facts(st):
        return frozenset((k, v) for k, v in st.env.items() if k.startswith("self."))

    @staticmethod
    def _ret_abs(v):
        """Keep of a return value what a caller can use: canvas deps, None-ness (also of a tuple's items)."""
        if not v:
            return None
        if v[0] in ("canv", "none", "val"):
            return v
        if v[0] == "list":
            return _VAL
        if v[0] == "tuple":
            return ("tuple", tuple(DepAnalysis._ret_abs(x) for x in v[1]))
        return None

    def check_return(self, st, v, ref, line):
        """The obligation proper, at one `return` of a render method. Returns the value a caller may assume."""
        self.returns_seen += 1
        if v is None or v[0] != "canv":
            if st.consulted or st.need_all:
                self.violations.append((ref.qualname, line, "returns a value whose dependencies the analysis cannot see", tuple(sorted(st.consulted))))
            return v
        deps = v[1]
        missing = sorted(g for g in st.consulted if g not in deps and (g + ":all") not in deps)
        skipped = sorted(g for g in st.need_all if (g + ":all") not in deps)
        if missing:
            self.violations.append((ref.qualname, line, "consulted but the returned canvas does not depend on", tuple(missing)))
        if skipped:
            self.violations.append((ref.qualname, line, "an element consulted in (or before) the loop is skipped without a dependency; collection", tuple(skipped)))
        # a caller of this render (super().render) may rely on: the canvas covers what was consulted here
        return ("canv", deps | st.consulted)

    # ---- binding
    def bind(self, t, v, st):
        if isinstance(t, ast.Name):
            if v is None:
                st.env.pop(t.id, None)
            else:
                st.env[t.id] = v
        elif isinstance(t, (ast.Tuple, ast.List)):
            items = v[1] if v and v[0] == "tuple" and len(v[1]) == len(t.elts) else [None] * len(t.elts)
            for x, y in zip(t.elts, items):
                self.bind(x, y, st)

    def bind_elem(self, t, grp, st):
        for n in ast.walk(t):
            if isinstance(n, ast.Name):
                st.env[n.id] = ("child", grp)

    # ---- tests with a little value sensitivity (None-ness of a bound result)
    def split_test(self, test, st, me, ref):
        """-> (states where the test is true, states where it is false)"""
        neg_ = False
        t = test
        while isinstance(t, ast.UnaryOp) and isinstance(t.op, ast.Not):
            neg_, t = not neg_, t.operand
        name, none_when_true = None, None
        if isinstance(t, ast.Compare) and len(t.ops) == 1 and isinstance(t.left, ast.Name) and isinstance(t.comparators[0], ast.Constant) and t.comparators[0].value is None:
            if isinstance(t.ops[0], ast.Is):
                name, none_when_true = t.left.id, True
            elif isinstance(t.ops[0], ast.IsNot):
                name, none_when_true = t.left.id, False
        elif isinstance(t, ast.Name):
            name, none_when_true = t.id, False  # truthy => not None
        learn = False
        if (name is None and isinstance(t, ast.Compare) and len(t.ops) == 1 and isinstance(t.ops[0], (ast.Is, ast.IsNot)) and isinstance(t.left, ast.Attribute)
                and isinstance(t.left.value, ast.Name) and t.left.value.id == me and isinstance(t.comparators[0], ast.Constant) and t.comparators[0].value is None):
            # `self.X is None` / `is not None`: the attribute does not change while rendering, so the answer is a FACT of
            # the path, remembered under "self.<group>" and shared with the `self.` helpers called on this path
            name, none_when_true, learn = "self." + _group_name(t.left.attr), isinstance(t.ops[0], ast.Is), True
        res = self.ev(test, st, me, ref)
        tr, fa = [], []
        for s, _v in res:
            known = s.env.get(name) if name else None
            if name and known is not None:
                is_none = known == _NONE
                truth = (is_none == none_when_true)
                if isinstance(t, ast.Name) and not is_none:
                    truth = None  # a non-None value may still be falsy: both arms, unless more is known
                    if known[0] in ("canv", "child"):
                        truth = True
                    elif known[0] == "tuple":
                        truth = len(known[1]) > 0
                    elif known[0] == "list" and known[3] is not None:
                        truth = not known[3]
                if truth is not None:
                    truth = truth != neg_
                    (tr if truth else fa).append(s)
                    continue
            a_, b_ = s.copy(), s.copy()
            if learn:
                a_.env[name] = _NONE if (none_when_true != neg_) else _VAL
                b_.env[name] = _VAL if (none_when_true != neg_) else _NONE
            tr.append(a_)
            fa.append(b_)
        return tr, fa

    # ---- statements
    def run(self, stmts, states, me, ref, check_elems=False, nested=False):
        """-> (fall-through states, [(state, value)] returned); break/continue states are kept on self._loop"""
        returned = []
        for s in stmts:
            states = _dedupe(states)
            if len(states) > self.MAX_STATES:
                raise RuntimeError(f"dependency analysis: more than {self.MAX_STATES} path states in {ref.qualname}")
            if not states:
                break
            if isinstance(s, ast.Assign):
                nxt = []
                for st in states:
                    for s2, v in self.ev(s.value, st, me, ref):
                        s2 = s2.copy()
                        if v is None:
                            g = self.child_group(s.value, s2, me) if isinstance(s.value, (ast.Attribute, ast.Subscript, ast.Name)) or (isinstance(s.value, ast.Call) and _callee_name(s.value.func) == "get_delegate") else None
                            if g:
                                v = ("child", g)
                        for t in s.targets:
                            if isinstance(t, ast.Subscript) and isinstance(t.value, ast.Name) and (s2.env.get(t.value.id) or (None,))[0] == "list":
                                cur = s2.env[t.value.id]
                                s2.env[t.value.id] = ("list", cur[1] | self.deps_of(v), cur[2] | self.kids_of(v), False)
                            else:
                                self.bind(t, v, s2)
                        nxt.append(s2)
                states = nxt
            elif isinstance(s, ast.AnnAssign):
                if s.value is not None:
                    nxt = []
                    for st in states:
                        for s2, v in self.ev(s.value, st, me, ref):
                            s2 = s2.copy()
                            self.bind(s.target, v, s2)
                            nxt.append(s2)
                    states = nxt
            elif isinstance(s, ast.AugAssign):
                nxt = []
                for st in states:
                    for s2, v in self.ev(s.value, st, me, ref):
                        s2 = s2.copy()
                        if isinstance(s.target, ast.Name):
                            cur = s2.env.get(s.target.id)
                            if cur and cur[0] == "list":
                                s2.env[s.target.id] = ("list", cur[1] | self.deps_of(v), cur[2] | self.kids_of(v), False if (v and v[0] == "list" and v[3] is False) else (cur[3] if cur[3] is False else None))
                        nxt.append(s2)
                states = nxt
            elif isinstance(s, ast.Expr):
                nxt = []
                for st in states:
                    nxt += [s2 for s2, _v in self.ev(s.value, st, me, ref)]
                states = nxt
            elif isinstance(s, ast.Return):
                for st in states:
                    for s2, v in self.ev(s.value, st, me, ref):
                        if s.value is not None and v is None:
                            v = None
                        if s.value is None:
                            v = _NONE
                        returned.append((s2.copy(), v, s.lineno))
                states = []
            elif isinstance(s, ast.Raise):
                states = []
            elif isinstance(s, ast.If):
                tr, fa = [], []
                for st in states:
                    a, b = self.split_test(s.test, st, me, ref)
                    tr += a
                    fa += b
                fa_, ra = self.run(s.body, tr, me, ref, check_elems, nested)
                fb_, rb = self.run(s.orelse, fa, me, ref, check_elems, nested)
                returned += [(x, v, None) for x, v in ra] + [(x, v, None) for x, v in rb]
                states = fa_ + fb_
            elif isinstance(s, (ast.For, ast.While)):
                states, r = self.run_loop(s, states, me, ref, check_elems, nested)
                returned += [(x, v, None) for x, v in r]
            elif isinstance(s, ast.Try):
                a, ra = self.run(s.body, [x.copy() for x in states], me, ref, check_elems, nested)
                returned += [(x, v, None) for x, v in ra]
                outs = list(a)
                for h in s.handlers:
                    hb, rh = self.run(h.body, [x.copy() for x in states] + [x.copy() for x in a], me, ref, check_elems, nested)
                    returned += [(x, v, None) for x, v in rh]
                    outs += hb
                if s.orelse:
                    e_, re_ = self.run(s.orelse, [x.copy() for x in a], me, ref, check_elems, nested)
                    returned += [(x, v, None) for x, v in re_]
                    outs = [x for x in outs if x not in a] + e_
                if s.finalbody:
                    outs, rf = self.run(s.finalbody, outs, me, ref, check_elems, nested)
                    returned += [(x, v, None) for x, v in rf]
                states = outs
            elif isinstance(s, ast.With):
                nxt = []
                for st in states:
                    cur = [st]
                    for it in s.items:
                        cur = [s2 for c in cur for s2, _v in self.ev(it.context_expr, c, me, ref)]
                    nxt += cur
                a, ra = self.run(s.body, nxt, me, ref, check_elems, nested)
                returned += [(x, v, None) for x, v in ra]
                states = a
            elif isinstance(s, ast.FunctionDef):
                for st in states:
                    st.fns[s.name] = s
            elif isinstance(s, (ast.Break, ast.Continue)):
                self._loop_exits[-1]["break" if isinstance(s, ast.Break) else "continue"] += states
                states = []
            elif isinstance(s, (ast.Pass, ast.Import, ast.ImportFrom, ast.Global, ast.Nonlocal, ast.Delete)):
                pass
            elif isinstance(s, ast.Assert):
                nxt = []
                for st in states:
                    nxt += [s2 for s2, _v in self.ev(s.test, st, me, ref)]
                states = nxt
            else:
                nxt = []
                for st in states:
                    cur = [st]
                    for n in ast.iter_child_nodes(s):
                        if isinstance(n, ast.expr):
                            cur = [s2 for c in cur for s2, _v in self.ev(n, c, me, ref)]
                    nxt += cur
                states = nxt
        # normalise the returned triples: remember the line of the `return` statement on the state
        out_ret = []
        for item in returned:
            st, v, line = item
            if line is not None:
                st._line = line
            out_ret.append((st, v))
        return _dedupe(states), out_ret

    _loop_exits: list = []

    def run_loop(self, s, states, me, ref, check_elems, nested):
        """zero, one or (for loops of a render method) two iterations; in a render method, the per-element
        registration check (see the comment block above): two iterations let "one element skipped, another one
        rendered" be seen as one path."""
        after, returned = [], []
        rounds = 2 if (check_elems and isinstance(s, ast.For)) else 1
        for st in states:
            pre = self.ev(s.iter if isinstance(s, ast.For) else s.test, st, me, ref)
            for s0, _v in pre:
                after.append(s0.copy())  # zero iterations
                cur = [s0]
                itv = s0.env.get(s.iter.id) if isinstance(s, ast.For) and isinstance(s.iter, ast.Name) else None
                if itv and itv[0] == "list" and itv[3] is True:
                    continue  # a list known to be empty on this path: no iteration
                for _round in range(rounds):
                    nxt = []
                    for c in cur:
                        ends, r = self.one_iteration(s, c, me, ref, check_elems, nested)
                        returned += r
                        for x, broke in ends:
                            if s.orelse and not broke:
                                f2, r2 = self.run(s.orelse, [x.copy()], me, ref, check_elems, nested)
                                returned += r2
                                after += f2
                            else:
                                after.append(x)
                            if not broke:
                                nxt.append(x)
                    cur = _dedupe(nxt)
                    if len(cur) > 64:
                        break
        return _dedupe(after), returned

    def one_iteration(self, s, s0, me, ref, check_elems, nested):
        """-> ([(state at the end of the iteration, left by break?)], returned)"""
        body_st = s0.copy()
        elem = None
        if isinstance(s, ast.For):
            grp = self.child_group(s.iter, s0, me) if not isinstance(s.iter, ast.Name) else None
            if grp is None:
                # a local list (possibly wrapped: enumerate(l), reversed(l), zip(l, ...)) that holds children
                for n in ast.walk(s.iter):
                    v = s0.env.get(n.id) if isinstance(n, ast.Name) else None
                    if v and v[0] == "list" and len({k.split(":")[0] for k in v[2]}) == 1:
                        self.bind_elem(s.target, next(iter(v[2])).split(":")[0], body_st)
                        break
                else:
                    for n in ast.walk(s.target):
                        if isinstance(n, ast.Name):
                            body_st.env.pop(n.id, None)
            elif any(isinstance(n, ast.Attribute) and isinstance(n.value, ast.Name) and n.value.id == me for n in ast.walk(s.iter)):
                elem = f"{grp}@L{s.lineno}"  # elements of a collection of self: tracked one by one
                self.bind_elem(s.target, elem, body_st)
            else:
                self.bind_elem(s.target, grp, body_st)  # elements of a child's collection: covered through the child
        self._loop_exits.append({"break": [], "continue": []})
        try:
            fall, r = self.run(s.body, [body_st], me, ref, check_elems, nested)
        finally:
            ex = self._loop_exits.pop()
        grp = elem.split("@")[0] if elem else None
        ret = []
        for x, v in r:
            if elem:
                x.consulted = frozenset(grp if g == elem else g for g in x.consulted)
                v = self._rename(v, elem, grp)
            ret.append((x, v))
        ends = []
        for x, broke in [(x, False) for x in fall + ex["continue"]] + [(x, True) for x in ex["break"]]:
            x = x.copy()
            if elem:
                if check_elems and not broke:
                    registered = any(elem in self.deps_of(v) for v in x.env.values())
                    consulted = elem in x.consulted or grp in x.consulted
                    if consulted and not registered:
                        x.need_all = x.need_all | {grp}
                # leave the iteration: the element becomes its group
                x.consulted = frozenset(grp if g == elem else g for g in x.consulted)
                for k, v in list(x.env.items()):
                    x.env[k] = self._rename(v, elem, grp)
            ends.append((x, broke))
        return ends, ret

    @staticmethod
    def _rename(v, old, new):
        if not v:
            return v
        if v[0] == "child":
            return ("child", new) if v[1] == old else v
        if v[0] == "canv":
            return ("canv", frozenset(new if g == old else g for g in v[1]))
        if v[0] == "list":
            return ("list", frozenset(new if g == old else g for g in v[1]), frozenset(new if g == old else g for g in v[2]), v[3])
        if v[0] == "tuple":
            return ("tuple", tuple(DepAnalysis._rename(x, old, new) for x in v[1]))
        return v


def analyse_render_deps(cls, exempt=None):
    """Obligation `<Class>.render`: every normal-exit path returns a canvas that depends on every child consulted.
    Returns (results [(label, ok, detail)], summary)."""
    exempt = exempt or {}
    an = DepAnalysis(cls)
    ref = an.info.method("render")
    key = f"{cls.__name__}.render"
    if ref is None:
        return [(key, False, "no render method found in the repository MRO")], []
    an.outcomes(ref)
    viol = sorted(set(an.violations))
    groups = sorted({g for outs in an.memo.values() for (c, _n, _v, _f) in outs for g in c})
    kept, waived = [], []
    def ordinal(qual, line):
        """Ordinal of the `return` statement among the returns of its method (stable under edits elsewhere)."""
        for (k, _b) in an.memo:
            r = an.refs.get(k)
            if r is not None and r.qualname == qual:
                lines = sorted(n.lineno for n in ast.walk(r.node) if isinstance(n, ast.Return))
                return lines.index(line) if line in lines else -1
        return -1

    for v in viol:
        ek = f"{cls.__name__}.render@{v[0]}#ret{ordinal(v[0], v[1])}:{'+'.join(v[3])}"
        (waived if ek in exempt else kept).append((v, ek))
    results = []
    if kept:
        detail = "; ".join(f"{q} line {ln}: {kind} {list(g)} [exemption key {ek}]" for (q, ln, kind, g), ek in kept)
        results.append((key, False, detail))
    else:
        d = f"defined in {ref.qualname}; {an.returns_seen} return path states; children consulted: {groups or 'none'}"
        if waived:
            d += "; EXEMPT: " + "; ".join(f"{ek} ({exempt[ek]})" for _v, ek in waived)
        results.append((key, True, d))
    return results, groups


# =============================================================================================
# Finalized canvases refuse mutation (C06, third family of static obligations)
# =============================================================================================
"""
For a canvas class (urwid/canvas.py), every method other than __init__: each statement that WRITES the canvas
(assignment / augmented assignment / del of `self.X` or `self.X[...]`, an in-place container method on `self.X`, a
call of another `self.` method that itself writes without being guarded) is reached, on every path, only after the
guard
        if self.widget_info [and self.cacheable]:
            raise self._finalized_error
has been passed — so on a finalized (cacheable) canvas the method raises before it changes anything:
"canvases handed out by the cache are never modified afterwards". `Canvas.finalize` itself has the guard, hence
"finalize twice raises". Path enumeration as above (value-insensitive).
"""

INPLACE = ("append", "extend", "insert", "pop", "remove", "clear", "update", "sort", "reverse", "setdefault", "popitem", "__setitem__", "__delitem__")


def _is_guard(node, me):
    if not isinstance(node, ast.If) or node.orelse:
        return False
    names = {n.attr for n in ast.walk(node.test) if isinstance(n, ast.Attribute) and isinstance(n.value, ast.Name) and n.value.id == me}
    if "widget_info" not in names or not names <= {"widget_info", "cacheable"}:
        return False
    if any(isinstance(n, (ast.Not, ast.Or)) for n in ast.walk(node.test)):
        return False
    last = node.body[-1] if node.body else None
    return isinstance(last, ast.Raise) and last.exc is not None and "_finalized_error" in ast.unparse(last.exc) and len(node.body) == 1


def analyse_finalized_guard(cls):
    """-> [(label, ok, detail)] one obligation per method of `cls`'s own body that writes the canvas."""
    info = ClassInfo(cls)
    m = SRC.module_of_real(cls.__module__)
    cnode = SRC.find_class(m, cls.__qualname__)
    own = [fn for fn in SRC._class_body_defs(cnode.body) if not SRC._is_overload(fn)]
    memo: dict = {}

    def unguarded_writes(ref, depth=0):
        """list of (line, what) of writes reachable without having passed the guard"""
        if ref.key in memo:
            return memo[ref.key]
        memo[ref.key] = []  # recursion guard
        me = _self_name(ref.node)
        found = []

        def writes_in_expr(e):
            out = []
            for n in ast.walk(e):
                if isinstance(n, ast.Call) and isinstance(n.func, ast.Attribute):
                    f = n.func
                    if f.attr in INPLACE and any(isinstance(x, ast.Name) and x.id == me for x in ast.walk(f.value)) and not (isinstance(f.value, ast.Name)):
                        out.append((n.lineno, f"in-place {ast.unparse(f)[:40]}"))
                    elif isinstance(f.value, ast.Name) and f.value.id == me:
                        callee = info.method(f.attr) or info.methods.get((f.attr, "setter"))
                        if callee is not None and depth < 6:
                            sub = unguarded_writes(callee, depth + 1)
                            if sub:
                                out.append((n.lineno, f"calls self.{f.attr}() which writes unguarded at line {sub[0][0]}"))
            return out

        def target_writes(t):
            if isinstance(t, (ast.Tuple, ast.List)):
                return [w for e in t.elts for w in target_writes(e)]
            base = t
            while isinstance(base, ast.Subscript):
                base = base.value
            if isinstance(base, ast.Attribute) and any(isinstance(x, ast.Name) and x.id == me for x in ast.walk(base)):
                if isinstance(t, ast.Attribute) and (t.attr, "setter") in info.methods:
                    sub = unguarded_writes(info.methods[(t.attr, "setter")], depth + 1) if depth < 6 else []
                    return [(t.lineno, f"sets property {t.attr} whose setter writes unguarded")] if sub else []
                return [(t.lineno, f"writes {ast.unparse(t)[:40]}")]
            return []

        def run(stmts, guarded):
            """guarded: set of booleans possible at this point; returns the set after (empty = no fall-through)"""
            for s in stmts:
                if not guarded:
                    return guarded
                if _is_guard(s, me):
                    guarded = {True}
                    continue
                ws = []
                if isinstance(s, (ast.Assign, ast.AugAssign, ast.AnnAssign)):
                    if getattr(s, "value", None) is not None:
                        ws += writes_in_expr(s.value)
                    for t in (s.targets if isinstance(s, ast.Assign) else [s.target]):
                        ws += target_writes(t)
                elif isinstance(s, ast.Delete):
                    for t in s.targets:
                        ws += target_writes(t)
                elif isinstance(s, (ast.Expr, ast.Return)):
                    if s.value is not None:
                        ws += writes_in_expr(s.value)
                elif isinstance(s, ast.If):
                    ws += writes_in_expr(s.test)
                elif isinstance(s, (ast.For, ast.While)):
                    ws += writes_in_expr(s.iter if isinstance(s, ast.For) else s.test)
                elif isinstance(s, ast.With):
                    for it in s.items:
                        ws += writes_in_expr(it.context_expr)
                if ws and False in guarded:
                    found.extend(ws)
                if isinstance(s, (ast.Return, ast.Raise)):
                    return set()
                if isinstance(s, ast.If):
                    guarded = run(s.body, set(guarded)) | run(s.orelse, set(guarded))
                elif isinstance(s, (ast.For, ast.While)):
                    guarded = guarded | run(s.body, set(guarded)) | run(s.orelse, set(guarded))
                elif isinstance(s, ast.With):
                    guarded = run(s.body, set(guarded))
                elif isinstance(s, ast.Try):
                    a = run(s.body, set(guarded))
                    out = set(a)
                    for h in s.handlers:
                        out |= run(h.body, set(guarded) | a)
                    out |= run(s.orelse, set(a)) if s.orelse else set()
                    guarded = run(s.finalbody, out) if s.finalbody else out
            return guarded

        run(ref.node.body, {False})
        memo[ref.key] = sorted(set(found))
        return memo[ref.key]

    def writes_anything(fn):
        me = _self_name(fn)
        for n in ast.walk(fn):
            if isinstance(n, (ast.Assign, ast.AugAssign, ast.AnnAssign, ast.Delete)):
                for t in (n.targets if isinstance(n, (ast.Assign, ast.Delete)) else [n.target]):
                    b = t
                    while isinstance(b, ast.Subscript):
                        b = b.value
                    if isinstance(b, ast.Attribute) and any(isinstance(x, ast.Name) and x.id == me for x in ast.walk(b)):
                        return True
            if isinstance(n, ast.Call) and isinstance(n.func, ast.Attribute) and (n.func.attr in INPLACE or (isinstance(n.func.value, ast.Name) and n.func.value.id == me)):
                if any(isinstance(x, ast.Name) and x.id == me for x in ast.walk(n.func.value)):
                    return True
        return False

    results = []
    for fn in own:
        if fn.name.startswith("_") or any(ast.unparse(d) in ("staticmethod", "classmethod") for d in fn.decorator_list):
            continue  # private helpers have no obligation of their own: a call to one counts as a write at the call site
        if not fn.args.args or not writes_anything(fn):
            continue
        decs = [ast.unparse(d) for d in fn.decorator_list]
        role = "setter" if any(d == f"{fn.name}.setter" for d in decs) else ("getter" if any(d in ("property", "functools.cached_property") for d in decs) else "function")
        ref = SRC.FnRef(m, fn, f"{cls.__qualname__}.{fn.name}", cls.__qualname__, role)
        bad = unguarded_writes(ref)
        label = f"{cls.__name__}.{fn.name}" + (".setter" if role == "setter" else "")
        results.append((label, not bad, "; ".join(f"line {ln}: {what}" for ln, what in bad) if bad else "every write is behind the finalized guard"))
    return results, []


# ================================================================================================= shared shard lists
# C06 (d): `CompositeCanvas(canv)` SHARES `canv.shards` (the list object, and the per-shard cview lists inside it) with
# the canvas it wraps — that wrapper is the sanctioned way to change a finalized (cached) canvas. So a CompositeCanvas
# method (or a shards_* helper) that mutates a possibly shared list IN PLACE changes the finalized canvas behind the
# finalized guard's back: "canvases handed out by the cache are never modified afterwards" is broken without any
# CanvasError. Obligation, per function: every in-place mutation (append / extend / insert / pop / remove / clear / sort /
# reverse, `+=` / `*=`, item or slice assignment and deletion) of a list that MAY BE SHARED is absent on every path.
#   provenance of a list value:  fresh  = created in this activation (list display / comprehension, `+`, slicing,
#                                          .copy(), list(...), a module function all of whose returns are fresh);
#                                shared = `x.shards` of any object (for `self.shards`: unless fresh on this path), a
#                                          parameter of a module-level helper, an element / loop variable / unpacking of a
#                                          shared OR fresh shard list (copies are shallow: the inner cview lists stay shared);
#   `self.shards` becomes fresh by `self.shards = <fresh>`; stays what it is through `self.m()` whose own assignments are all
#   fresh-or-unchanged (summary, flow-insensitive); and is known fresh on the `else` side of `<a> is self.shards` when <a>
#   was bound to `self.shards` before any rebinding and every rebinding since was fresh (pad_trim_top_bottom's idiom).
# Paths: both arms of every `if`, loop bodies to a fixpoint of the (finite) abstract state, `try` with and without handlers.
_LIST_INPLACE = ("append", "extend", "insert", "pop", "remove", "clear", "sort", "reverse", "__setitem__", "__delitem__", "__iadd__", "__imul__")
SHARED_ATTR = "shards"


def _flow_insensitive_fresh_locals(fn, fresh_funcs, me=None):
    """names all of whose assignments in `fn` are fresh expressions, `= self.shards` excluded unless allow_same"""
    assigns: dict = {}
    for n in ast.walk(fn):
        if isinstance(n, ast.Assign):
            for t in n.targets:
                if isinstance(t, ast.Name):
                    assigns.setdefault(t.id, []).append(n.value)
                elif isinstance(t, (ast.Tuple, ast.List)):
                    for e in ast.walk(t):
                        if isinstance(e, ast.Name):
                            assigns.setdefault(e.id, []).append(None)
        elif isinstance(n, (ast.AugAssign, ast.AnnAssign)) and isinstance(n.target, ast.Name):
            assigns.setdefault(n.target.id, []).append(getattr(n, "value", None) if isinstance(n, ast.AnnAssign) else None)
        elif isinstance(n, (ast.For, ast.comprehension)):
            for e in ast.walk(n.target):
                if isinstance(e, ast.Name):
                    assigns.setdefault(e.id, []).append(None)
    params = {a.arg for a in fn.args.posonlyargs + fn.args.args + fn.args.kwonlyargs}
    fresh: set = set()
    same: set = set()  # fresh-or-(the current self.shards)
    changed = True
    while changed:
        changed = False
        for name, vals in assigns.items():
            if name in params:
                continue
            if name not in fresh and all(v is not None and _fresh_expr(v, fresh, fresh_funcs) for v in vals):
                fresh.add(name)
                changed = True
            if me is not None and name not in same and all(v is not None and (_fresh_expr(v, fresh | same, fresh_funcs) or _is_self_attr(v, me)) for v in vals):
                same.add(name)
                changed = True
    return fresh, same


def _is_self_attr(e, me, attr=SHARED_ATTR):
    return isinstance(e, ast.Attribute) and e.attr == attr and isinstance(e.value, ast.Name) and e.value.id == me


def _fresh_expr(e, fresh_names, fresh_funcs):
    """the expression certainly evaluates to a list object created by this evaluation"""
    if isinstance(e, (ast.List, ast.ListComp)):
        return True
    if isinstance(e, ast.BinOp) and isinstance(e.op, (ast.Add, ast.Mult)):
        return True  # list + list / list * n build a new list
    if isinstance(e, ast.Subscript) and isinstance(e.slice, ast.Slice):
        return True
    if isinstance(e, ast.Call):
        f = e.func
        if isinstance(f, ast.Name) and (f.id in ("list", "sorted") or f.id in fresh_funcs):
            return True
        if isinstance(f, ast.Attribute) and f.attr == "copy" and not e.args and not e.keywords:
            return True
    return isinstance(e, ast.Name) and e.id in fresh_names


def fresh_returning_functions(mod):
    """module-level functions every `return` of which gives a list created in the call (fixpoint over mutual use)"""
    fns = {n.name: n for n in mod.tree.body if isinstance(n, ast.FunctionDef)}
    fresh: set = set()
    changed = True
    while changed:
        changed = False
        for name, fn in fns.items():
            if name in fresh:
                continue
            rets = [n for n in ast.walk(fn) if isinstance(n, ast.Return)]
            if not rets or any(isinstance(n, (ast.Yield, ast.YieldFrom)) for n in ast.walk(fn)):
                continue
            loc, _same = _flow_insensitive_fresh_locals(fn, fresh)
            if all(r.value is not None and _fresh_expr(r.value, loc, fresh) for r in rets):
                fresh.add(name)
                changed = True
    return fresh


class _ShState:
    """abstract state of one path: provenance of local names + the status of self.shards"""

    __slots__ = ("env", "fresh", "tainted", "rebound", "entry_alias", "cur_alias")

    def __init__(self):
        self.env = {}  # name -> "fresh" | "shared" | "elem" (element tuple of a fresh shard list)
        self.fresh = False  # self.shards is a list created in this activation
        self.tainted = False  # self.shards was rebound to a possibly shared list on this path
        self.rebound = False  # self.shards may have been rebound since entry
        self.entry_alias = frozenset()  # names bound to the entry-time self.shards object
        self.cur_alias = frozenset()  # names bound to the current self.shards object

    def copy(self):
        o = _ShState()
        o.env = dict(self.env)
        o.fresh, o.tainted, o.rebound, o.entry_alias, o.cur_alias = self.fresh, self.tainted, self.rebound, self.entry_alias, self.cur_alias
        return o

    def key(self):
        return (tuple(sorted(self.env.items())), self.fresh, self.tainted, self.rebound, self.entry_alias, self.cur_alias)

    @staticmethod
    def join(a, b):
        if a is None:
            return b
        if b is None:
            return a
        o = _ShState()
        for k in set(a.env) | set(b.env):
            x, y = a.env.get(k), b.env.get(k)
            if x == y:
                if x is not None:
                    o.env[k] = x
            elif "shared" in (x, y):
                o.env[k] = "shared"
            elif "elem" in (x, y) and None not in (x, y):
                o.env[k] = "shared"
            elif x is not None and y is not None:
                o.env[k] = "shared"
        o.fresh = a.fresh and b.fresh
        o.tainted = a.tainted or b.tainted
        o.rebound = a.rebound or b.rebound
        o.entry_alias = a.entry_alias & b.entry_alias
        o.cur_alias = a.cur_alias & b.cur_alias
        return o


def analyse_shared_shards(cls):
    """-> ([(label, ok, detail)], []) one obligation per method of `cls` and per module-level function of its module that
    handles shard lists: no in-place mutation of a possibly shared list (see the comment block above)."""
    info = ClassInfo(cls)
    m = SRC.module_of_real(cls.__module__)
    cnode = SRC.find_class(m, cls.__qualname__)
    fresh_funcs = fresh_returning_functions(m)
    summaries: dict = {}

    def summary(name, depth=0):
        """'none' | 'fresh' | 'taint': what self.<name>() may do to self.shards"""
        if name in summaries:
            return summaries[name]
        summaries[name] = "none"  # recursion guard
        ref = info.method(name)
        if ref is None or depth > 6:
            return "none"
        fn = ref.node
        me = _self_name(fn)
        _fl, same = _flow_insensitive_fresh_locals(fn, fresh_funcs, me)
        res = "none"
        for n in ast.walk(fn):
            if isinstance(n, (ast.Assign, ast.AnnAssign, ast.AugAssign)):
                tgts = n.targets if isinstance(n, ast.Assign) else [n.target]
                for t in tgts:
                    if _is_self_attr(t, me):
                        v = getattr(n, "value", None)
                        ok = not isinstance(n, ast.AugAssign) and v is not None and (_fresh_expr(v, same, fresh_funcs) or _is_self_attr(v, me))
                        res = "taint" if (not ok or res == "taint") else "fresh"
            if isinstance(n, ast.Call) and isinstance(n.func, ast.Attribute) and isinstance(n.func.value, ast.Name) and n.func.value.id == me:
                sub = summary(n.func.attr, depth + 1)
                if sub == "taint" or (sub == "fresh" and res == "none"):
                    res = sub
        summaries[name] = res
        return res

    def analyse(fn, is_method):
        me = _self_name(fn) if is_method else None
        found = []

        def prov(e, st):
            """provenance of the list (or tuple) value of expression e"""
            if isinstance(e, ast.Name):
                return st.env.get(e.id)
            if isinstance(e, ast.Attribute) and e.attr == SHARED_ATTR:
                if me is not None and _is_self_attr(e, me):
                    return "fresh" if st.fresh else "shared"
                return "shared"
            if isinstance(e, ast.Subscript) and not isinstance(e.slice, ast.Slice):
                p = prov(e.value, st)
                return {"shared": "shared", "fresh": "elem", "elem": "shared"}.get(p)
            if isinstance(e, ast.Call) and isinstance(e.func, ast.Name) and e.func.id in ("iter", "reversed", "enumerate", "next") and e.args:
                p = prov(e.args[0], st)
                return "shared" if p in ("shared", "elem") else ("elem" if p == "fresh" and e.func.id == "next" else p)
            if isinstance(e, ast.Starred):
                return prov(e.value, st)
            if _fresh_expr(e, {k for k, v in st.env.items() if v == "fresh"}, fresh_funcs):
                return "fresh"
            return None

        def flag(node, what, st):
            found.append((node.lineno, what))

        def scan_expr(e, st):
            """in-place method calls and self-method calls inside an expression (evaluation order is ignored)"""
            for n in ast.walk(e):
                if isinstance(n, ast.Call) and isinstance(n.func, ast.Attribute):
                    f = n.func
                    if f.attr in _LIST_INPLACE and prov(f.value, st) == "shared":
                        flag(n, f"in-place {ast.unparse(f)[:50]}() on a possibly shared list", st)
                    elif me is not None and isinstance(f.value, ast.Name) and f.value.id == me:
                        s = summary(f.attr)
                        if s != "none":
                            st.rebound = True
                            st.cur_alias = frozenset()
                        if s == "taint":
                            st.fresh, st.tainted = False, True

        def bind(t, p, st, value=None):
            if isinstance(t, ast.Name):
                if p is None:
                    st.env.pop(t.id, None)
                else:
                    st.env[t.id] = p
                st.entry_alias -= {t.id}
                st.cur_alias -= {t.id}
                if me is not None and value is not None and _is_self_attr(value, me):
                    st.cur_alias |= {t.id}
                    if not st.rebound:
                        st.entry_alias |= {t.id}
            elif isinstance(t, (ast.Tuple, ast.List)):
                for e in t.elts:
                    bind(e.value if isinstance(e, ast.Starred) else e, "shared" if p in ("shared", "elem", "fresh") else None, st)
            elif isinstance(t, ast.Subscript):
                if prov(t.value, st) == "shared":
                    flag(t, f"item assignment {ast.unparse(t)[:50]} on a possibly shared list", st)
            elif me is not None and _is_self_attr(t, me):
                if isinstance(value, ast.Name) and value.id in st.cur_alias:
                    return  # self.shards = <the same object>
                st.fresh = p == "fresh"
                st.tainted = st.tainted or not st.fresh
                st.rebound = True
                st.cur_alias = frozenset({value.id}) if isinstance(value, ast.Name) else frozenset()

        def is_test(test, st):
            """(alias `is` self.shards) -> +1, (`is not`) -> -1, else 0"""
            if me is None or not isinstance(test, ast.Compare) or len(test.ops) != 1:
                return 0
            a, b = test.left, test.comparators[0]
            if _is_self_attr(a, me):
                a, b = b, a
            if not (_is_self_attr(b, me) and isinstance(a, ast.Name) and a.id in st.entry_alias):
                return 0
            return 1 if isinstance(test.ops[0], ast.Is) else (-1 if isinstance(test.ops[0], ast.IsNot) else 0)

        def run(stmts, st):
            for s in stmts:
                if st is None:
                    return None
                if isinstance(s, ast.Assign):
                    scan_expr(s.value, st)
                    p = prov(s.value, st)
                    for t in s.targets:
                        bind(t, p, st, s.value)
                elif isinstance(s, ast.AnnAssign):
                    if s.value is not None:
                        scan_expr(s.value, st)
                        bind(s.target, prov(s.value, st), st, s.value)
                elif isinstance(s, ast.AugAssign):
                    scan_expr(s.value, st)
                    t = s.target
                    if isinstance(t, ast.Subscript):
                        if prov(t.value, st) == "shared":
                            flag(s, f"item update {ast.unparse(t)[:50]} on a possibly shared list", st)
                    elif isinstance(s.op, (ast.Add, ast.Mult)) and prov(t, st) == "shared" and (isinstance(t, ast.Attribute) or isinstance(s.op, ast.Mult) or prov(s.value, st) == "fresh"):
                        # (a NAME unpacked from a shard tuple may be the row count: `done_rows += num_rows` is integer arithmetic;
                        # it is a list operation when the right-hand side is a list created here)
                        flag(s, f"augmented assignment {ast.unparse(t)[:50]} {'+=' if isinstance(s.op, ast.Add) else '*='} extends a possibly shared list in place", st)
                elif isinstance(s, ast.Delete):
                    for t in s.targets:
                        if isinstance(t, ast.Subscript) and prov(t.value, st) == "shared":
                            flag(s, f"del {ast.unparse(t)[:50]} on a possibly shared list", st)
                elif isinstance(s, (ast.Expr, ast.Return)):
                    if s.value is not None:
                        scan_expr(s.value, st)
                    if isinstance(s, ast.Return):
                        return None
                elif isinstance(s, ast.Raise):
                    return None
                elif isinstance(s, ast.If):
                    scan_expr(s.test, st)
                    a, b = st.copy(), st.copy()
                    k = is_test(s.test, st)
                    if k:
                        other = b if k == 1 else a  # the side on which self.shards is NOT the entry-time object
                        other.fresh = other.fresh or not other.tainted
                    st = _ShState.join(run(s.body, a), run(s.orelse, b))
                elif isinstance(s, (ast.For, ast.While)):
                    scan_expr(s.iter if isinstance(s, ast.For) else s.test, st)
                    seen = set()
                    out = st.copy()
                    cur = st
                    for _ in range(8):
                        if cur is None or cur.key() in seen:
                            break
                        seen.add(cur.key())
                        body_in = cur.copy()
                        if isinstance(s, ast.For):
                            p = prov(s.iter, body_in)
                            bind(s.target, "shared" if p in ("shared", "elem", "fresh") else None, body_in)
                            if isinstance(s.target, ast.Name) and p in ("shared", "elem", "fresh"):
                                body_in.env[s.target.id] = "shared" if p != "fresh" else "elem"
                        after = run(s.body, body_in)
                        out = _ShState.join(out, after)
                        cur = _ShState.join(cur, after)
                    st = _ShState.join(out, run(s.orelse, out.copy()) if s.orelse else out)
                elif isinstance(s, ast.With):
                    for it in s.items:
                        scan_expr(it.context_expr, st)
                    inner = run(s.body, st.copy())
                    # a suppressing context manager may leave the block from anywhere: join with the entry state
                    st = _ShState.join(st, inner) if any("suppress" in ast.unparse(it.context_expr) for it in s.items) else inner
                elif isinstance(s, ast.Try):
                    a = run(s.body, st.copy())
                    out = run(s.orelse, a.copy()) if (s.orelse and a is not None) else a
                    for h in s.handlers:
                        out = _ShState.join(out, run(h.body, _ShState.join(st.copy(), a)))
                    st = run(s.finalbody, out) if (s.finalbody and out is not None) else out
                elif isinstance(s, (ast.Break, ast.Continue)):
                    return st  # approximated: the loop join above covers leaving the body early
                else:
                    for n in ast.iter_child_nodes(s):
                        if isinstance(n, ast.expr):
                            scan_expr(n, st)
            return st

        st0 = _ShState()
        if not is_method:
            for a in fn.args.posonlyargs + fn.args.args + fn.args.kwonlyargs:
                st0.env[a.arg] = "shared"
        run(fn.body, st0)
        return sorted(set(found))

    results = []
    for fn in SRC._class_body_defs(cnode.body):
        if SRC._is_overload(fn) or not fn.args.args or any(ast.unparse(d) in ("staticmethod", "classmethod") for d in fn.decorator_list):
            continue
        if not any(isinstance(n, ast.Attribute) and n.attr == SHARED_ATTR for n in ast.walk(fn)):
            continue
        bad = analyse(fn, True)
        results.append((f"{cls.__name__}.{fn.name}", not bad, "; ".join(f"line {ln}: {what}" for ln, what in bad) if bad else "no in-place mutation of a possibly shared shard list"))
    for fn in m.tree.body:
        if isinstance(fn, ast.FunctionDef) and (fn.name.startswith(("shards_", "shard_")) or any(isinstance(n, ast.Attribute) and n.attr == SHARED_ATTR for n in ast.walk(fn))):
            is_helper = fn.name.startswith(("shards_", "shard_"))
            bad = analyse(fn, False) if is_helper else _analyse_plain(fn, analyse)
            results.append((f"{m.rel if hasattr(m, 'rel') else 'canvas'}:{fn.name}", not bad, "; ".join(f"line {ln}: {what}" for ln, what in bad) if bad else "no in-place mutation of a possibly shared shard list"))
    return results, []


def _analyse_plain(fn, analyse):
    """a module-level function that is not a shard-list helper (CanvasCombine, CanvasJoin, ...): its parameters are not
    shard lists; only `x.shards` values are shared"""
    import copy

    fn2 = copy.copy(fn)
    fn2.args = ast.arguments(posonlyargs=[], args=[], kwonlyargs=[], kw_defaults=[], defaults=[])
    return analyse(fn2, False)
