"""Invalidate-on-write effect obligations (C06), computed path-sensitively on the real ASTs.

For a widget class C (methods resolved through the real MRO, ASTs re-read from /repo):
  RS(C)  = attributes `self.X` read, transitively through `self.m()` calls and `self.p` property reads,
           by the render-path methods (render, rows, pack, get_cursor_coords, get_pref_col, selectable, sizing);
  mutator = a public method or property setter of C's own class body that is not itself on the render path.
Obligation per (class, mutator): on every normal-exit path of the mutator that assigns an attribute in
RS(C) (directly, or through a callee/setter that does), `self._invalidate()` is called on that path
(directly, or through a callee/setter that always does).  Exceptional exits are not constrained.

The path enumeration abstracts values away: both arms of every `if`, zero or one iteration of loops,
`try` bodies with and without the handlers; this over-approximates the set of paths, so a reported
path may be infeasible — each exemption needed on the unchanged tree is written down with its reason.
"""
from __future__ import annotations

import ast
import inspect

from . import source as SRC

RENDER_PATH = ("render", "rows", "pack", "get_cursor_coords", "selectable", "sizing")
# attributes holding a MonitoredList / list walker: mutating the object they hold fires its modified
# callback, which the owning widget connected to _invalidate (C16 "modified fires once per mutation",
# C08 "_contents_modified invalidates", ListBox.body setter connects "modified" -> _invalidate)
MONITORED = ("_contents", "contents", "_body", "body")
MUTATORS = ("append", "extend", "insert", "pop", "remove", "sort", "reverse", "clear", "set_focus", "__setitem__", "__delitem__", "__iadd__", "__imul__")
INVALIDATORS = ("_invalidate",)


class ClassInfo:
    def __init__(self, cls):
        self.cls = cls
        self.methods = {}  # name -> (FnRef, role)
        for c in reversed(cls.__mro__):
            m = SRC.module_of_real(c.__module__)
            if m is None:
                continue
            cnode = SRC.find_class(m, c.__qualname__)
            if cnode is None:
                continue
            for fn in SRC._class_body_defs(cnode.body):
                if SRC._is_overload(fn):
                    continue
                decs = [ast.unparse(d) for d in fn.decorator_list]
                role = "setter" if any(d == f"{fn.name}.setter" for d in decs) else ("getter" if any(d in ("property", "functools.cached_property") for d in decs) else "function")
                self.methods[(fn.name, role)] = SRC.FnRef(m, fn, f"{c.__qualname__}.{fn.name}", c.__qualname__, role)
            # properties defined by assignment: name = property(getter, setter)
            for n in cnode.body:
                if isinstance(n, ast.Assign) and isinstance(n.value, ast.Call) and ast.unparse(n.value.func) == "property":
                    for t in n.targets:
                        if isinstance(t, ast.Name):
                            args = n.value.args
                            for role, idx in (("getter", 0), ("setter", 1)):
                                if len(args) > idx and isinstance(args[idx], ast.Name):
                                    ref = self.methods.get((args[idx].id, "function"))
                                    if ref is not None:
                                        self.methods[(t.id, role)] = ref

    def method(self, name, role="function"):
        return self.methods.get((name, role))


def _self_name(fn_node):
    a = fn_node.args.posonlyargs + fn_node.args.args
    return a[0].arg if a else "self"


def reads_of(info: ClassInfo, roots):
    """Attributes of self read on the render path (transitive)."""
    seen, todo, reads, visited_methods = set(), list(roots), set(), set()
    while todo:
        key = todo.pop()
        if key in seen:
            continue
        seen.add(key)
        ref = info.methods.get(key)
        if ref is None:
            continue
        visited_methods.add(key)
        me = _self_name(ref.node)
        for n in ast.walk(ref.node):
            if isinstance(n, ast.Attribute) and isinstance(n.value, ast.Name) and n.value.id == me and isinstance(n.ctx, ast.Load):
                if (n.attr, "function") in info.methods:
                    todo.append((n.attr, "function"))
                elif (n.attr, "getter") in info.methods:
                    todo.append((n.attr, "getter"))
                else:
                    reads.add(n.attr)
    return reads, visited_methods


class _Summary:
    """Per path: (writes an RS attribute?, invalidates?)"""


def path_outcomes(info: ClassInfo, ref, rs, summaries, depth=0):
    """Set of (writes_rs, invalidates, written_attrs) over the normal-exit paths of the method."""
    me = _self_name(ref.node)

    def merge(o, c):
        return (o[0] or c[0], o[1] or c[1], o[2] | c[2])

    def call_outcomes(label):
        if label in INVALIDATORS:
            return {(False, True, frozenset())}
        if label in summaries:
            return summaries[label]
        return None

    def expr_effects(e):
        """Possible (writes, invalidates, attrs) contributions of the calls inside an expression."""
        outs = {(False, False, frozenset())}
        for n in ast.walk(e):
            if not isinstance(n, ast.Call) or not isinstance(n.func, ast.Attribute):
                continue
            f = n.func
            if (f.attr in MUTATORS and isinstance(f.value, ast.Attribute) and isinstance(f.value.value, ast.Name)
                    and f.value.value.id == me and f.value.attr in MONITORED):
                outs = {merge(o, (True, True, frozenset([f.value.attr]))) for o in outs}
                continue
            is_self = isinstance(f.value, ast.Name) and f.value.id == me
            is_super = isinstance(f.value, ast.Call) and ast.unparse(f.value.func) == "super"
            if is_self or is_super:
                co = call_outcomes(f.attr)
                if co:
                    outs = {merge(o, c) for o in outs for c in co}
        return outs

    def target_effects(t):
        outs = {(False, False, frozenset())}
        if isinstance(t, ast.Attribute) and isinstance(t.value, ast.Name) and t.value.id == me:
            if (t.attr, "setter") in info.methods:
                co = call_outcomes("set:" + t.attr)
                if co:
                    outs = {merge(o, c) for o in outs for c in co}
            elif t.attr in rs:
                outs = {(True, False, frozenset([t.attr]))}
        elif isinstance(t, (ast.Tuple, ast.List)):
            for e in t.elts:
                outs = {merge(o, c) for o in outs for c in target_effects(e)}
        elif isinstance(t, ast.Subscript):
            b_ = t.value
            if isinstance(b_, ast.Attribute) and isinstance(b_.value, ast.Name) and b_.value.id == me and b_.attr in MONITORED:
                outs = {(True, True, frozenset([b_.attr]))}
            elif isinstance(b_, ast.Attribute) and isinstance(b_.value, ast.Name) and b_.value.id == me and b_.attr in rs:
                outs = {(True, False, frozenset([b_.attr]))}
        return outs

    def combine(states, effs):
        return {merge(st_, c) for st_ in states for c in effs}

    def run(stmts, states):
        """returns (fallthrough states, returned states)"""
        returned = set()
        for s in stmts:
            if not states:
                break
            if isinstance(s, (ast.Assign, ast.AugAssign, ast.AnnAssign)):
                if getattr(s, "value", None) is not None:
                    states = combine(states, expr_effects(s.value))
                for t in (s.targets if isinstance(s, ast.Assign) else [s.target]):
                    states = combine(states, target_effects(t))
            elif isinstance(s, ast.Expr):
                states = combine(states, expr_effects(s.value))
            elif isinstance(s, ast.Return):
                if s.value is not None:
                    states = combine(states, expr_effects(s.value))
                returned |= states
                states = set()
            elif isinstance(s, ast.Raise):
                states = set()
            elif isinstance(s, ast.If):
                st0 = combine(states, expr_effects(s.test))
                a, ra = run(s.body, set(st0))
                b, rb = run(s.orelse, set(st0))
                returned |= ra | rb
                states = a | b
            elif isinstance(s, (ast.For, ast.While)):
                st0 = combine(states, expr_effects(s.iter if isinstance(s, ast.For) else s.test))
                a, ra = run(s.body, set(st0))
                returned |= ra
                once = a | st0
                b, rb = run(s.orelse, set(once))
                returned |= rb
                states = b | once
            elif isinstance(s, ast.Try):
                a, ra = run(s.body, set(states))
                returned |= ra
                outs = set(a)
                for h in s.handlers:
                    hb, rh = run(h.body, set(states) | a)
                    returned |= rh
                    outs |= hb
                e, re_ = run(s.orelse, set(a))
                returned |= re_
                outs = (outs - a) | e if s.orelse else outs
                if s.finalbody:
                    f, rf = run(s.finalbody, outs)
                    returned |= rf
                    fr, _ = run(s.finalbody, returned)
                    returned = fr
                    outs = f
                states = outs
            elif isinstance(s, ast.With):
                for it in s.items:
                    states = combine(states, expr_effects(it.context_expr))
                a, ra = run(s.body, states)
                returned |= ra
                states = a
            elif isinstance(s, ast.Delete):
                for t in s.targets:
                    states = combine(states, target_effects(t))
            elif isinstance(s, (ast.Pass, ast.FunctionDef, ast.Import, ast.ImportFrom, ast.Assert, ast.Global, ast.Nonlocal, ast.Break, ast.Continue)):
                pass
            else:
                for n in ast.iter_child_nodes(s):
                    if isinstance(n, ast.expr):
                        states = combine(states, expr_effects(n))
        return states, returned

    start = {(False, False, frozenset())}
    fall, ret = run(ref.node.body, start)
    return fall | ret


def analyse_class(cls, exempt=None):
    """Returns list of (method label, ok, detail) obligations for `cls`'s own mutators."""
    exempt = exempt or {}
    info = ClassInfo(cls)
    roots = [(m, "function") for m in RENDER_PATH] + [(m, "getter") for m in RENDER_PATH]
    rs, render_methods = reads_of(info, roots)
    rs -= {"_invalidate", "_emit", "logger", "_command_map", "__class__"}
    # fixpoint over per-method outcome summaries: label -> set of (writes RS?, invalidates?, attrs) per path
    summaries: dict = {}
    names = {}
    for (name, role), ref in info.methods.items():
        if role == "getter" or (name, role) in render_methods:
            continue
        names[("set:" + name) if role == "setter" else name] = ref
    for _ in range(8):
        changed = False
        for label, ref in names.items():
            outs = path_outcomes(info, ref, rs, summaries)
            # keep summaries small: forget which attributes, keep the (w, i) pairs
            outs = {(w, i, a) for (w, i, a) in outs}
            if summaries.get(label) != outs:
                summaries[label] = outs
                changed = True
        if not changed:
            break
    results = []
    own = set()
    m = SRC.module_of_real(cls.__module__)
    cnode = SRC.find_class(m, cls.__qualname__) if m else None
    if cnode is not None:
        for fn in SRC._class_body_defs(cnode.body):
            own.add(fn.name)
    for label, ref in sorted(names.items()):
        pub = label[4:] if label.startswith("set:") else label
        if ref.node.name not in own and pub not in own:
            continue
        if pub.startswith("_") or pub in ("__init__",):
            continue
        outs = path_outcomes(info, ref, rs, summaries)
        bad = sorted({tuple(sorted(a)) for (w, i, a) in outs if w and not i})
        key = f"{cls.__name__}.{label}"
        if bad and key in exempt:
            results.append((key, True, f"EXEMPT ({exempt[key]}): writes {bad} without invalidating"))
        else:
            results.append((key, not bad, f"a normal-exit path writes render state {bad} without calling _invalidate()" if bad else "every path that writes render state invalidates"))
    return results, sorted(rs)
