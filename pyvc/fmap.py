"""Finite maps with SYMBOLIC hashable keys: a model of `dict` for dictionaries whose keys are not constants
(attribute maps {old display attribute: new display attribute}; pyvc's DRef covers constant keys only).

Two layers, as for lists (SSeq value / LRef object):

  MapVal   an immutable map VALUE: `n` entries, insertion order `key(i)` (0 <= i < n), membership `has(k)`, the
           stored value `val(k)` (meaningful where has(k)) and the position `idx(k)` (meaningful where has(k)).
           Well-formedness (every dict satisfies it; instantiated GROUNDLY at the terms that are read, DESIGN 3.7):
               W1  0 <= i < n   =>  has(key(i)) and idx(key(i)) == i            (asserted when key(i) is read)
               W2  has(k)       =>  0 <= idx(k) < n and key(idx(k)) == k        (asserted when has(k) is read)
           A fresh symbolic map is five uninterpreted functions; the maps the code builds are derived structurally.
  SFMap    the mutable dict OBJECT (reference semantics, a ModelObj): holds the current MapVal.  A map read out of
           a sequence or produced by a conditional is FROZEN: mutating it is Unsupported (the by-value element model
           of pyvc.seqs has no aliasing), reading and `.copy()` are fine.

Keys are values of shape Opt(Opaque(K)) (None is a legal key) or Opaque(K); they are hashable by construction
(an unhashable key never gets into a dict: `d[k]`, `k in d`, `d.get(k)` with an unhashable k raise TypeError in
CPython -- values of the key shape stand for hashable objects only, stated in the contracts that use the model).
Key equality is `==` of the opaque individuals (Python: hash-equal and `==`).

Python semantics modelled (CPython 3.12; cross-checked concretely by `xcheck_fmap`, run as a static obligation of
the contracts that use the model):
    len(d), bool(d), k in d, d[k] (KeyError), d.get(k[, default]), d[k] = v, del d[k] (KeyError), d.copy(), dict(d),
    d.items() / d.keys() / d.values() / iteration (insertion order), d.update(other map | sequence of pairs),
    d.setdefault(k[, default]), d.pop(k[, default]), isinstance(d, dict / Mapping).
`update` with a sequence of pairs P of symbolic length: the new value of a key x is that of the LAST pair with key x
(`last(x)` = its index: a fresh function with its two defining axioms, see MapVal.update_pairs); the position of new
keys in the insertion order is left unspecified (a fresh well-formed order), which is an under-specification.
"""
from __future__ import annotations

import z3

from . import shapes as S
from . import values as V
from .engine import PathEnd, PyRaise, SExc
from .seqs import DRef, LRef, ModelObj, SSeq, seq_get, seq_len
from .values import SBool, SInt, SOpaque, SOpt, Sym, Unsupported, both, cur, either, implies, ite, mk_bool, mk_int, neg, opt_eq


def _key_kind(kshape):
    inner = kshape.inner if isinstance(kshape, S.Opt) else kshape
    if not isinstance(inner, S.Opaque):
        raise Unsupported(f"finite map: key shape {kshape!r} (only Opaque(K) / Opt(Opaque(K)) / Int)")
    return inner


class _IntKind:
    """Stand-in for the Opaque kind of integer keys (`_Keys.opq`)."""

    kind = "int"
    meta: dict = {}


class _IntKeys:
    """Keys that are Python ints (`dict[int, ...]` indexed by loop indices, weights ...): a key is its integer value,
    key equality is `==` of the integers (hash-equal and `==`, as for CPython ints; bools and floats are not admitted
    as keys -- True == 1 would alias -- and raise Unsupported).  Same interface as `_Keys`.  Cross-check against
    CPython: `xcheck_intmap` below."""

    def __init__(self, kshape):
        self.shape = kshape
        self.opq = _IntKind
        self.sort = z3.IntSort()
        self.dom = [z3.IntSort()]

    def norm(self, k):
        if V._current:
            k = cur().force(k) if isinstance(k, SOpt) else k
        if isinstance(k, (bool, SBool)) or not isinstance(k, (int, SInt)):
            raise Unsupported(f"finite map with int keys: key {k!r}")
        return k

    def args(self, k):
        return [V._z(self.norm(k))]

    def eq(self, a, b):
        return V._cmp("==", self.norm(a), self.norm(b))


def _value_shape(vshape):
    """The shape values are generated with: lists are held BY VALUE (immutable sequence values)."""
    if isinstance(vshape, S.ListOf) and not vshape.tuple_:
        return S.ListOf(vshape.elem, vshape.min_len, vshape.max_len, tuple_=True, measure=vshape.measure)
    return vshape


def empty_map(st, name, kshape, vshape):
    """`{}` as a map value of the given shapes.  The value function of absent keys is an unconstrained function of the
    key (of the value shape), so that the value read under a key that IS present is always of the value shape -- a
    conditional between a stored value and that function -- never a conditional with `None`."""
    from .protocol import uf_shape_value

    ks = make_keys(kshape)
    base = st.fresh_name(f"{name}$absent")
    return MapVal(ks, vshape, 0, lambda i: None, lambda k: False, lambda k: uf_shape_value(st, base, ks.args(k), _value_shape(vshape)), lambda k: -1, name=name)


def make_keys(kshape):
    if isinstance(kshape, (_Keys, _IntKeys)):
        return kshape
    return _IntKeys(kshape) if isinstance(kshape, S._Int) else _Keys(kshape)


class _Keys:
    """Encoding of keys as z3 argument lists: (is None, individual) -- the individual of None is a fixed default."""

    def __init__(self, kshape):
        self.shape = kshape
        self.opq = _key_kind(kshape)
        self.sort = S.opaque_sort(self.opq.kind)
        self.dflt = z3.Const(f"{self.opq.kind}!none-slot", self.sort)
        self.dom = [z3.BoolSort(), self.sort]

    def norm(self, k):
        """A key value of the code (None, SOpt, SOpaque, admitted literal) as an SOpt / SOpaque / None."""
        if k is None or isinstance(k, (SOpt, SOpaque)):
            if isinstance(k, SOpt) and not isinstance(k.val, SOpaque):
                if k.val is None:
                    return None
                raise Unsupported(f"finite map: key {k!r}")
            return k
        tmpl = SOpaque(self.opq.kind, self.dflt, dict(self.opq.meta))
        if not isinstance(k, Sym) and tmpl.admits_literal(k):
            return tmpl.literal(k)
        raise Unsupported(f"finite map: key {k!r} is not of the key shape {self.shape!r}")

    def args(self, k):
        k = self.norm(k)
        if k is None:
            return [z3.BoolVal(True), self.dflt]
        if isinstance(k, SOpt):
            return [k.isnone, z3.If(k.isnone, self.dflt, k.val.e)]
        return [z3.BoolVal(False), k.e]

    def eq(self, a, b):
        return opt_eq(self.norm(a), self.norm(b))


class MapVal:
    """An immutable finite-map value (see the module docstring).  All members are closures over symbolic values;
    `n` is an int or SInt."""

    def __init__(self, keys: _Keys, vshape, n, key, has, val, idx, name="map"):
        self.keys = keys
        self.vshape = vshape
        self.n = n
        self._key, self._has, self._val, self._idx = key, has, val, idx
        self.name = name

    # ---- observers (each read instantiates the well-formedness axiom at the term read)
    def key(self, i):
        k = self._key(i)
        cur().assume(implies(both(V._cmp(">=", i, 0), V._cmp("<", i, self.n)), both(self._has(k), V._cmp("==", self._idx(k), i))))
        return k

    def has(self, k):
        h = self._has(k)
        if h is not False:
            j = self._idx(k)
            st = cur()
            if isinstance(j, int) and isinstance(self.n, int):
                if 0 <= j < self.n:
                    st.assume(implies(h, self.keys.eq(self._key(j), k)))
                else:
                    st.assume(neg(h) if isinstance(h, SBool) else not h)
            else:
                st.assume(implies(h, both(V._cmp(">=", j, 0), V._cmp("<", j, self.n), self.keys.eq(self._key(j), k))))
        return h

    def val(self, k):
        return self._val(k)

    def idx(self, k):
        return self._idx(k)

    def get(self, k, default=None):
        return _ite_any(self.has(k), self.val(k), default)

    def card_range_axiom(self, lo, hi):
        """Cardinality of a dict whose keys are exactly the integers lo .. hi-1 (int keys only): `len(d) == hi - lo`.
        The true fact  (for all k: has(k) <=> lo <= k < hi)  =>  n == max(hi - lo, 0)  -- key() is a bijection between the
        positions 0..n-1 and the keys, by W1 / W2 -- is asserted in Skolem form: for a FRESH constant sk,
            (has(sk) <=> lo <= sk < hi)  =>  n == max(hi - lo, 0)
        (sk names a key on which the two sides differ, if there is one).  Returns sk, so that the caller can instantiate
        what it knows about every key at sk.  Cross-check against CPython: `xcheck_intmap`."""
        if not isinstance(self.keys, _IntKeys):
            raise Unsupported("card_range_axiom: int keys only")
        st = cur()
        sk = st.fresh_int(f"{self.name}$sk")
        inr = both(V._cmp("<=", lo, sk), V._cmp("<", sk, hi))
        st.assume(implies(V.eq(self.has(sk), inr), V._cmp("==", self.n, V.imax(hi - lo, 0))))
        return sk

    # ---- constructors
    @staticmethod
    def fresh(st, hint, kshape, vshape, zidx=()):
        """A fresh symbolic map; `zidx`: z3 index terms when the map is an element of a (nested) sequence."""
        from .protocol import uf_shape_value

        ks = make_keys(kshape)
        base = hint
        zidx = list(zidx)
        idom = [t.sort() for t in zidx]
        hasF = z3.Function(f"{base}$has", *idom, *ks.dom, z3.BoolSort())
        idxF = z3.Function(f"{base}$idx", *idom, *ks.dom, z3.IntSort())
        nF = z3.Function(f"{base}$n", *idom, z3.IntSort()) if zidx else None
        n = mk_int(nF(*zidx)) if zidx else mk_int(z3.Int(f"{base}$n"))
        if not isinstance(n, int):
            (cur() if V._current else st).assume(n >= 0)

        def has(k):
            return mk_bool(hasF(*zidx, *ks.args(k)))

        def idx(k):
            return mk_int(idxF(*zidx, *ks.args(k)))

        def val(k):
            return uf_shape_value(st, f"{base}$val", zidx + ks.args(k), _value_shape(vshape))

        def key(i):
            return uf_shape_value(st, f"{base}$key", zidx + [V._z(i)], ks.shape)

        return MapVal(ks, vshape, n, key, has, val, idx, name=base)

    @staticmethod
    def from_items(kshape, vshape, items, name="lit"):
        """The map built by inserting the (key, value) pairs of a concrete-length list in order (`dict(pairs)`)."""
        ks = make_keys(kshape)
        m = MapVal(ks, vshape, 0, lambda i: None, lambda k: False, lambda k: None, lambda k: -1, name=name)
        for k, v in items:
            m = m.set(k, v)
        return m

    # ---- derived values
    def set(self, k, v):
        """d[k] = v: the value changes; a new key goes to the end of the insertion order."""
        old, ks = self, self.keys
        k = ks.norm(k)
        was = old.has(k)
        n2 = old.n + ite(was, 0, 1) if isinstance(was, SBool) else (old.n if was else old.n + 1)
        return MapVal(
            ks, self.vshape, n2,
            lambda i: _ite_any(V._cmp("<", i, old.n), old._key(i), k) if not isinstance(was, bool) or not was else old._key(i),
            lambda x: either(old._has(x), ks.eq(x, k)),
            lambda x: _ite_any(ks.eq(x, k), v, old._val(x)),
            lambda x: _ite_any(both(ks.eq(x, k), neg(was)), old.n, old._idx(x)),
            name="set",
        )

    def delete(self, k):
        """del d[k] for a key that is present: the later keys move up one position."""
        old, ks = self, self.keys
        k = ks.norm(k)
        p = old.idx(k)
        return MapVal(
            ks, self.vshape, old.n - 1,
            lambda i: _ite_any(V._cmp("<", i, p), old._key(i), old._key(i + 1)),
            lambda x: both(old._has(x), neg(ks.eq(x, k))),
            old._val,
            lambda x: _ite_any(V._cmp(">", old._idx(x), p), old._idx(x) - 1, old._idx(x)),
            name="del",
        )

    def _fresh_order(self, st, has2, name):
        """A fresh, well-formed insertion order for the membership predicate has2 (positions unspecified)."""
        from .protocol import uf_shape_value

        ks = self.keys
        base = st.fresh_name(name)
        idxF = z3.Function(f"{base}$idx", *ks.dom, z3.IntSort())
        n2 = st.fresh_int(f"{base}$n")
        st.assume(n2 >= 0)
        return n2, (lambda i: uf_shape_value(st, f"{base}$key", [V._z(i)], ks.shape)), (lambda x: mk_int(idxF(*ks.args(x))))

    def update_map(self, other: "MapVal"):
        """d.update(other) for another map: other's entries win."""
        old, ks = self, self.keys
        st = cur()
        has2 = lambda x: either(old._has(x), other._has(x))  # noqa: E731
        n2, key2, idx2 = self._fresh_order(st, has2, "upd")
        if isinstance(old.n, int) and old.n == 0:
            n2, key2, idx2 = other.n, other._key, other._idx  # {}.update(m): m's own order
        else:
            st.assume(both(V._cmp(">=", n2, old.n), V._cmp(">=", n2, other.n), V._cmp("<=", n2, old.n + other.n)))
        return MapVal(ks, self.vshape, n2, key2, has2, lambda x: _ite_any(other._has(x), other._val(x), old._val(x)), idx2, name="updm")

    def update_pairs(self, pairs, hints=()):
        """d.update(P) for a sequence P of (key, value) pairs.  Concrete length: successive stores.  Symbolic length n:
        a fresh function last: key -> int with the defining axioms
            A1  0 <= i < n        =>  i <= last(P[i].key) < n  and  P[last(P[i].key)].key == P[i].key
            A2  0 <= last(x) < n  =>  P[last(x)].key == x
        i.e. last(x) is the greatest index whose pair has key x, and lies outside [0, n) when there is none.  Then
        has'(x) = has(x) or 0 <= last(x) < n;  val'(x) = P[last(x)].value if 0 <= last(x) < n else val(x).
        Ground instantiation: reading has'/val' at x asserts A2 at x and A1 at every index `h(x)` for h in `hints`
        (functions key -> candidate index, e.g. the position of x in the map whose items() P was computed from); A1 is
        also asserted as a quantified fact when the state allows quantifiers (`quantified=True`)."""
        n = seq_len(pairs)
        if isinstance(n, int):
            m = self
            for i in range(n):
                kv = seq_get(pairs, i)
                m = m.set(kv[0], kv[1])
            return m
        old, ks = self, self.keys
        st = cur()
        base = st.fresh_name("last")
        lastF = z3.Function(base, *ks.dom, z3.IntSort())
        last = lambda x: mk_int(lastF(*ks.args(x)))  # noqa: E731
        inr = lambda j: both(V._cmp(">=", j, 0), V._cmp("<", j, n))  # noqa: E731

        def a1(i):
            ki = seq_get(pairs, i)[0]
            j = last(ki)
            return implies(inr(i), both(V._cmp("<=", i, j), V._cmp("<", j, n), ks.eq(seq_get(pairs, j)[0], ki)))

        def a2(x):
            j = last(x)
            return implies(inr(j), ks.eq(seq_get(pairs, j)[0], x))

        def touch(x):
            s_ = cur()
            s_.assume(a2(x))
            for h in hints:
                s_.assume(a1(h(x)))

        def has2(x):
            touch(x)
            return either(old._has(x), inr(last(x)))

        def val2(x):
            touch(x)
            j = last(x)
            return _ite_any(inr(j), seq_get(pairs, j)[1], old._val(x))

        n2, key2, idx2 = self._fresh_order(st, has2, "updp")
        st.assume(V._cmp(">=", n2, old.n))
        r = MapVal(ks, self.vshape, n2, key2, has2, val2, idx2, name="updp")
        r.last = last
        return r


def _ite_any(c, a, b):
    """Conditional value (never forks when the two values have one structure)."""
    if c is True:
        return a
    if c is False:
        return b
    r = V._ite_struct(c.e, a, b)
    if r is V._NOITE:
        return V.SIte(c.e, a, b)
    return r


def _ite_maps(ce, a, b):
    """Conditional between two maps (values): a frozen map object."""
    va, vb = a.v, b.v
    if va.keys.opq.kind != vb.keys.opq.kind:
        return V._NOITE
    c = mk_bool(ce)
    m = MapVal(va.keys, va.vshape, ite(c, va.n, vb.n), lambda i: _ite_any(c, va._key(i), vb._key(i)), lambda x: ite(c, va._has(x), vb._has(x)),
               lambda x: _ite_any(c, va._val(x), vb._val(x)), lambda x: ite(c, va._idx(x), vb._idx(x)), name="ite")
    return SFMap(m, frozen=True)


class MapListRef(LRef):
    """The list object stored under key `key` of a dict model whose values are lists (`d.setdefault(k, []).append(x)`,
    `d[k].append(x)`, `for x in d[k]`): a reference whose content IS the map's current value at that key -- reading
    `.seq` reads the map, assigning `.seq` (every list mutation of pyvc.builtins_model does) stores the new content
    under the key.  Sound as long as the dict keeps holding that list object under that key: a later rebinding or
    deletion of the key through the dict (`d[k] = other`, `del d[k]`, `d.pop(k)`) invalidates every outstanding
    reference (`SFMap._rebind`), whose use is then Unsupported."""

    def __init__(self, fmap, key):
        self.__dict__["fmap"] = fmap
        self.__dict__["key"] = key
        self.__dict__["epoch"] = fmap.epoch
        LRef.serial_counter += 1
        self.__dict__["serial"] = LRef.serial_counter

    def _check(self):
        if self.fmap.epoch != self.epoch:
            raise Unsupported("use of a list taken from a dict model after the dict rebound / deleted a key (aliasing is not modelled)")

    @property
    def seq(self):
        self._check()
        return self.fmap.v.val(self.key)

    @seq.setter
    def seq(self, new):
        self._check()
        self.fmap._mut()
        self.fmap.v = self.fmap.v.set(self.key, new)

    def snapshot(self):
        return LRef(self.seq)


class _StoredSeq:
    """`seq` of a list object after it was stored BY VALUE into a dict model: reading it is fine (its content at that
    moment), mutating it would need alias tracking -> Unsupported (as seqs._MovedSeq for rows of nested lists)."""


def _poison(lref):
    """The list object `lref` was stored by value into a dict model: further mutation through this reference is
    Unsupported (the dict would not see it)."""
    content = lref.seq

    class _Stored(type(lref)):
        @property
        def seq(self):
            return content

        @seq.setter
        def seq(self, new):
            raise Unsupported("mutation of a list object after it was stored in a dict model (aliasing is not modelled)")

    d = dict(lref.__dict__)
    d.pop("seq", None)
    lref.__class__ = _Stored
    lref.__dict__.clear()
    lref.__dict__.update(d)
    return content


class SFMap(ModelObj):
    """A dict object with symbolic keys (see the module docstring).

    Values of a Union shape (size tuples of different arity) are stored as `values.SCases`; values of a list shape
    (`dict[int, list[int]]`) are stored BY VALUE (the list's content) and handed out as `MapListRef` references that
    write through (the list object that was stored is poisoned: `_poison`)."""

    py_class = dict

    def __init__(self, v: MapVal, frozen=False):
        self.v = v
        self.frozen = frozen
        self.epoch = 0

    def _list_valued(self):
        return isinstance(self.v.vshape, S.ListOf)

    def _store(self, v):
        vs = self.v.vshape
        if isinstance(vs, S.Union) and not isinstance(v, V.SCases):
            return V.SCases([(z3.BoolVal(True), v)])
        if isinstance(vs, S.ListOf):
            if isinstance(v, MapListRef):
                return v.seq
            if isinstance(v, LRef):
                return _poison(v)
            if not isinstance(v, (tuple, SSeq)):
                raise Unsupported(f"dict model with list values: stored value {type(v).__name__}")
        return v

    def _load(self, k):
        if self._list_valued():
            return MapListRef(self, self.v.keys.norm(k))
        return self.v.val(k)

    def _rebind(self):
        if self._list_valued():
            self.epoch += 1

    def _mut(self):
        if self.frozen:
            raise Unsupported("mutation of a dict that was read out of a sequence / a conditional (held by value: aliasing is not modelled)")

    def py_version(self):
        return self.v

    def py_shape(self):
        return MapOf(self.v.keys.shape, self.v.vshape)

    def py_havoc(self, st):
        """Loop havoc of a dict the loop may change: an arbitrary map."""
        self._mut()
        self.v = MapVal.fresh(st, st.fresh_name("map^"), self.v.keys, self.v.vshape)

    def py_concretize(self, model):
        from .shapes import concretize

        try:
            n = concretize(model, self.v.n)
            return {"<dict with symbolic keys>": n, "items": [(concretize(model, self.v._key(i)), concretize(model, self.v._val(self.v._key(i)))) for i in range(min(n, 4))]}
        except Exception:  # noqa: BLE001
            return "<dict with symbolic keys>"

    def snapshot(self):
        return SFMap(self.v, frozen=True)

    def py_truth(self, st):
        return V._cmp(">", self.v.n, 0)

    def py_len(self, st):
        return self.v.n

    def py_contains(self, ip, st, x):
        return self.v.has(x)

    def py_getitem(self, ip, st, k):
        st.partial(self.v.has(k), KeyError, "key")
        return self._load(k)

    def py_setitem(self, ip, st, k, v):
        self._mut()
        self._rebind()
        self.v = self.v.set(k, self._store(v))

    def py_delitem(self, ip, st, k):
        self._mut()
        st.partial(self.v.has(k), KeyError, "key")
        self._rebind()
        self.v = self.v.delete(k)

    def py_iter(self, ip, st):
        return self.keys_seq()

    def keys_seq(self):
        m = self.v
        r = SSeq(m.n, m.key, m.keys.shape, None, "keys")
        r.map_src = m
        return r

    def items_seq(self):
        m = self.v

        def getter(i):
            k = m.key(i)
            return (k, m.val(k))

        r = SSeq(m.n, getter, S.Tup(m.keys.shape, m.vshape), None, "items")
        r.map_src = m
        return r

    def values_seq(self):
        m = self.v
        r = SSeq(m.n, lambda i: m.val(m.key(i)), m.vshape, None, "values")
        r.map_src = m  # provenance, as for keys() / items()
        return r

    def py_call(self, ip, st, name, args, kwargs):
        m = self.v
        if self._list_valued() and name in ("get", "items", "values", "update", "pop", "copy"):
            raise Unsupported(f"dict method {name} on a dict model with list values")
        if name == "get" and 1 <= len(args) <= 2 and not kwargs:
            return m.get(args[0], args[1] if len(args) > 1 else None)
        if name == "__contains__" and len(args) == 1:
            return m.has(args[0])
        if name == "__getitem__" and len(args) == 1:
            return self.py_getitem(ip, st, args[0])
        if name == "copy" and not args:
            return SFMap(m)
        if name == "items" and not args:
            return self.items_seq()
        if name == "keys" and not args:
            return self.keys_seq()
        if name == "values" and not args:
            return self.values_seq()
        if name == "update" and len(args) <= 1 and not kwargs:
            self._mut()
            if args:
                self.v = update_value(st, m, st.force(args[0]))
            return None
        if name == "setdefault" and 1 <= len(args) <= 2:
            self._mut()
            k = m.keys.norm(args[0])
            d = args[1] if len(args) > 1 else None
            if st.branch(m.has(k)):
                return self._load(k)
            self.v = m.set(k, self._store(d))
            return self._load(k) if self._list_valued() else d
        if name == "pop" and 1 <= len(args) <= 2:
            self._mut()
            k = m.keys.norm(args[0])
            if st.branch(m.has(k)):
                v = m.val(k)
                self.v = m.delete(k)
                return v
            if len(args) > 1:
                return args[1]
            raise PyRaise(SExc(KeyError, ("key",), site="builtin"))
        raise Unsupported(f"dict method {name} on a map with symbolic keys")


def as_mapval(x, kshape=None, vshape=None):
    """The map value of a dict-like model value: SFMap, MapVal, a DRef / dict with constant keys (needs the shapes)."""
    if isinstance(x, SFMap):
        return x.v
    if isinstance(x, MapVal):
        return x
    if isinstance(x, (DRef, dict)):
        if kshape is None:
            raise Unsupported("as_mapval: key shape needed for a constant-key dict")
        d = x.d if isinstance(x, DRef) else x
        return MapVal.from_items(kshape, vshape, list(d.items()))
    raise Unsupported(f"not a dict model: {type(x).__name__}")


def update_value(st, m: MapVal, other):
    """The value of a map after `.update(other)`."""
    if isinstance(other, (SFMap, MapVal)):
        return m.update_map(as_mapval(other))
    if isinstance(other, (DRef, dict)):
        d = other.d if isinstance(other, DRef) else other
        return m.update_pairs(tuple(d.items()))
    if isinstance(other, LRef):
        other = other.seq
    if isinstance(other, (tuple, SSeq)):
        hints = []
        src = getattr(getattr(other, "comp_over", None), "map_src", None) or getattr(other, "map_src", None)
        if src is not None and src.keys.opq.kind == m.keys.opq.kind:
            hints.append(src.idx)  # P was computed item by item from src.items(): the candidate pair for x is x's own
        return m.update_pairs(other, hints)
    raise Unsupported(f"dict.update({type(other).__name__})")


class MapOf(S.Shape):
    """Shape of a dict with symbolic keys of shape `key` and values of shape `val` (a fresh SFMap); as an element of
    a sequence (`ListOf(.. MapOf ..)`) it is read out as a frozen SFMap."""

    def __init__(self, key, val):
        self.key, self.val = key, val
        self.keys = make_keys(key)

    def fresh(self, st, hint):
        return SFMap(MapVal.fresh(st, st.fresh_name(hint), self.keys, self.val))

    def seq_getter(self, st, base, path, nidx):
        """Hook of seqs.fresh_seq: the getter (*indices) -> element of a sequence whose elements have this shape."""
        def g(*idx):
            return SFMap(MapVal.fresh(st, f"{base}{path}", self.keys, self.val, [V._z(i) for i in idx]), frozen=True)

        return g

    def __repr__(self):
        return f"MapOf({self.key!r}, {self.val!r})"


# ------------------------------------------------------------------------------------------------ CPython cross-check


def xcheck_fmap(rounds=24, seed=11):
    """Concrete cross-check against CPython's dict: random small dictionaries over a universe of hashable constants
    (None, falsy and truthy ones) go through random operation sequences in CPython and, in parallel, through the model
    with every constant replaced by a symbolic individual (pairwise distinct, None as None); after every operation the
    model's has / val / n / key / idx, queried at every universe element and position, must be *entailed* to equal
    CPython's answers (z3 `unsat` of the negation).  Returns (ok, detail)."""
    import random

    from .engine import Config, Explorer, State

    rnd = random.Random(seed)
    universe = [None, 0, "", "a", "b", ("t", 1), 7]
    kshape = S.Opt(S.Opaque("XKey"))
    bad = []
    ex = Explorer(Config())
    ks = _Keys(kshape)
    for _r in range(rounds):
        st = State(ex, [])  # a fresh path condition per round keeps the queries small
        V._current.append(st)
        try:
            _xcheck_round(st, rnd, universe, ks, kshape, bad)
        except PathEnd:
            bad.append(("the model's facts contradict one another", _r))
        finally:
            V._current.pop()
    return (not bad, f"{rounds} random dict histories compared with CPython dict after every operation, mismatches: {bad[:3]}")


def _xcheck_round(st, rnd, universe, ks, kshape, bad):
    if True:
        sym = {}
        for u in universe:
            sym[u] = None if u is None else SOpt(z3.BoolVal(False), SOpaque("XKey", z3.Const(f"xk!{universe.index(u)}", S.opaque_sort("XKey"))))
        nn = [sym[u].val.e for u in universe if u is not None]
        st.assume(z3.Distinct(*nn))

        def entails(f):
            f = f.e if isinstance(f, SBool) else z3.BoolVal(bool(f))
            r, _m = st._check(z3.Not(f), 5000)
            return r == z3.unsat

        def compare(tag, m, d, ordered=True):
            fs = [V._cmp("==", m.n, len(d)) if ordered else V._cmp(">=", m.n, 0)]  # (order and count of an updated map: unspecified)
            for u in universe:
                fs.append(mk_bool(V._zb(m.has(sym[u])) == (u in d)))
                fs.append(ks.eq(m.get(sym[u], sym["b"]), sym[d.get(u, "b")]))
                if u in d:
                    fs.append(ks.eq(m.val(sym[u]), sym[d[u]]))
                    if ordered:
                        fs.append(V._cmp("==", m.idx(sym[u]), list(d).index(u)))
            if ordered:
                for i, u in enumerate(d):
                    fs.append(ks.eq(m.key(i), sym[u]))
            ok = entails(both(*fs))
            if not ok:
                bad.append((tag, dict(d)))
            return ok

        if True:
            d = {}
            for _ in range(rnd.randrange(0, 4)):
                d[rnd.choice(universe)] = rnd.choice(universe)
            m = MapVal.from_items(ks, kshape, [(sym[k], sym[v]) for k, v in d.items()])
            ordered = True
            compare("build", m, d)
            for _step in range(rnd.randrange(1, 5)):
                op = rnd.choice(["set", "del", "updm", "updp", "updp-sym", "copy"])
                if op == "set":
                    k, v = rnd.choice(universe), rnd.choice(universe)
                    d[k] = v
                    m = m.set(sym[k], sym[v])
                elif op == "del":
                    k = rnd.choice(universe)
                    if k not in d:
                        if not entails(neg(m.has(sym[k]))):
                            bad.append(("del-absent", dict(d)))
                        continue
                    del d[k]
                    m = m.delete(sym[k])
                elif op == "copy":
                    d = dict(d)
                elif op == "updm":
                    o = {rnd.choice(universe): rnd.choice(universe) for _ in range(rnd.randrange(0, 3))}
                    om = MapVal.from_items(ks, kshape, [(sym[k], sym[v]) for k, v in o.items()])
                    ordered = ordered and not d
                    d.update(o)
                    m = m.update_map(om)
                else:
                    pairs = [(rnd.choice(universe), rnd.choice(universe)) for _ in range(rnd.randrange(0, 4))]
                    spairs = tuple((sym[k], sym[v]) for k, v in pairs)
                    d.update(pairs)
                    if op == "updp":
                        m = m.update_pairs(spairs)
                    else:
                        # the symbolic-length path: the same pairs behind a length constant equated to the real length
                        ln = st.fresh_int("plen")
                        st.assume(V._cmp("==", ln, len(pairs)))

                        def getter(i, spairs=spairs):
                            r = spairs[-1] if spairs else (None, None)
                            for j in range(len(spairs) - 2, -1, -1):
                                r = _ite_any(V._cmp("==", i, j), spairs[j], r)
                            return r

                        seq = SSeq(ln, getter, None, None, "xpairs")
                        # hints: every index is a candidate (the ground instances of A1 in play)
                        m = m.update_pairs(seq, hints=[(lambda x, j=j: j) for j in range(len(pairs))])
                        ordered = False
                compare(op, m, d, ordered)


def xcheck_intmap(rounds=60, seed=5):
    """Concrete cross-check of the int-keyed dict model against CPython: random histories of `d[k] = v`, `del d[k]`,
    `d.setdefault(k, v)` over small int keys run on a real dict and on the model with CONCRETE keys (every observer then
    evaluates to a plain value): membership, values, len, insertion order and positions must agree after every step; for a
    dict whose keys are exactly range(lo, hi) the cardinality axiom's conclusion `len == hi - lo` is compared as well; and
    a dict of lists `d.setdefault(k, []).append(x)` (stored by value, MapListRef) against CPython's aliasing semantics.
    -> (label, ok, detail)"""
    import random

    from .engine import Config, Explorer, State

    rnd = random.Random(seed)
    bad = []
    st = State(Explorer(Config()), [])
    V._current.append(st)
    try:
        for _r in range(rounds):
            d = {}
            m = empty_map(st, "xi", S.Int, S.Int)
            for _step in range(rnd.randrange(1, 8)):
                op = rnd.choice(["set", "set", "del", "setdefault"])
                k, v = rnd.randrange(-1, 5), rnd.randrange(0, 9)
                if op == "set":
                    d[k] = v
                    m = m.set(k, v)
                elif op == "del":
                    if k not in d:
                        if m.has(k) is not False:
                            bad.append(("del-absent", dict(d)))
                        continue
                    del d[k]
                    m = m.delete(k)
                else:
                    if k not in d:
                        d[k] = v
                        m = m.set(k, v)
                ok = m.n == len(d) and all((m.has(x) is True) == (x in d) for x in range(-2, 6))
                ok = ok and all(m.val(x) == d[x] and m.idx(x) == list(d).index(x) for x in d) and all(m.key(i) == x for i, x in enumerate(d))
                if d and set(d) == set(range(min(d), max(d) + 1)):
                    ok = ok and m.n == max(d) + 1 - min(d)  # what card_range_axiom concludes for such a dict
                if not ok:
                    bad.append((op, dict(d)))
        # dict of lists
        for _r in range(rounds // 2):
            d = {}
            fm = SFMap(empty_map(st, "xl", S.Int, S.ListOf(S.Int)))
            for _step in range(rnd.randrange(1, 7)):
                k, x = rnd.randrange(0, 3), rnd.randrange(0, 9)
                d.setdefault(k, []).append(x)
                r = fm.py_call(None, st, "setdefault", [k, LRef(())], {})
                r.seq = tuple(r.seq) + (x,)  # what list.append does to a list reference (pyvc.builtins_model)
                if not all((fm.v.has(y) is True) == (y in d) for y in range(4)) or any(tuple(fm.v.val(y)) != tuple(d[y]) for y in d) or fm.v.n != len(d):
                    bad.append(("lists", {y: list(z) for y, z in d.items()}))
    finally:
        V._current.pop()
    return "int-keyed-dict-model-agrees-with-cpython", not bad, f"{rounds} + {rounds // 2} random dict histories (int keys; lists as values), mismatches: {bad[:3]}"
