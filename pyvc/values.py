"""Symbolic values for pyvc.

Concrete Python values (int, bool, None, str, bytes, tuple, enum members, ...) are used as they are.
Symbolic values wrap z3 terms and overload the Python operators, so that the *same* contract /
spec-function text runs (a) on z3 terms when an obligation is generated and (b) on plain Python
values when a counterexample is replayed on the real code or a bounded check evaluates the contract.

`bool()` of a symbolic boolean asks the current path explorer to fork (replay-based exploration), so
plain `if/and/or/not` in contracts and spec functions is allowed.
"""
from __future__ import annotations

import z3

_current = []  # stack of active engine states (set by engine.State)


def cur():
    if not _current:
        raise RuntimeError("symbolic value used outside a path exploration")
    return _current[-1]


class Unsupported(Exception):
    """Construct outside the verified subset."""


# ---------------------------------------------------------------------------------------------
# atoms: finite-domain constants (strings, enum members, None ...) interned to integer codes.
# StrEnum members hash/compare equal to their string value, so they share a code with it.
_atom_codes: dict = {}
_atom_vals: list = []


def atom_code(c) -> int:
    try:
        return _atom_codes[c]
    except KeyError:
        _atom_codes[c] = len(_atom_vals)
        _atom_vals.append(c)
        return _atom_codes[c]


def atom_value(code: int):
    return _atom_vals[code]


def is_atomic_const(c) -> bool:
    import enum

    return c is None or isinstance(c, (str, bytes, enum.Enum))


class Sym:
    __slots__ = ()


def _z(v):
    """z3 Int/Real term of an int-like value."""
    if isinstance(v, SInt):
        return v.e
    if isinstance(v, SReal):
        return v.e
    if isinstance(v, SBool):
        return z3.If(v.e, z3.IntVal(1), z3.IntVal(0))
    if isinstance(v, bool):
        return z3.IntVal(int(v))
    if isinstance(v, int):
        return z3.IntVal(v)
    if isinstance(v, float):
        return z3.RealVal(repr(v))
    if isinstance(v, SOpt):
        return _z(cur().force(v))
    raise Unsupported(f"not a number: {v!r}")


def _zb(v):
    if isinstance(v, SBool):
        return v.e
    if isinstance(v, bool):
        return z3.BoolVal(v)
    if isinstance(v, (SInt, int)):
        return _z(v) != 0
    raise Unsupported(f"not a bool: {v!r}")


def is_real(v):
    return isinstance(v, (SReal, float))


def is_num(v):
    return isinstance(v, (SInt, SReal, SBool, int, float)) and not isinstance(v, str)


def is_sym(v):
    return isinstance(v, Sym)


def mk_int(e):
    e = z3.simplify(e) if z3.is_app(e) and e.num_args() <= 2 and all(z3.is_int_value(a) for a in e.children()) else e
    if z3.is_int_value(e):
        return e.as_long()
    return SInt(e)


def mk_bool(e):
    if z3.is_true(e):
        return True
    if z3.is_false(e):
        return False
    return SBool(e)


def _arith(op, a, b):
    # both concrete handled by Python itself; here at least one symbolic
    if isinstance(a, SOpt):
        a = cur().force(a)
    if isinstance(b, SOpt):
        b = cur().force(b)
    if not (is_num(a) and is_num(b)):
        return NotImplemented
    real = is_real(a) or is_real(b)
    za, zb = _z(a), _z(b)
    if real:
        if za.sort() != z3.RealSort():
            za = z3.ToReal(za)
        if zb.sort() != z3.RealSort():
            zb = z3.ToReal(zb)
    if op == "+":
        r = za + zb
    elif op == "-":
        r = za - zb
    elif op == "*":
        r = za * zb
    elif op == "/":
        if not real:
            za, zb = z3.ToReal(za), z3.ToReal(zb)
        if not _nonzero_const(zb):
            cur().partial(zb != 0, ZeroDivisionError, "division by zero")
        return SReal(za / zb)
    elif op == "//":
        if real:
            raise Unsupported("float floor division")
        if not _nonzero_const(zb):
            cur().partial(zb != 0, ZeroDivisionError, "integer division or modulo by zero")
        return mk_int(py_floordiv(za, zb))
    elif op == "%":
        if real:
            raise Unsupported("float modulo")
        if not _nonzero_const(zb):
            cur().partial(zb != 0, ZeroDivisionError, "integer division or modulo by zero")
        return mk_int(py_mod(za, zb))
    else:
        raise Unsupported(op)
    return SReal(r) if real else mk_int(r)


def _nonzero_const(zb):
    zb = z3.simplify(zb)
    return (z3.is_int_value(zb) and zb.as_long() != 0) or (z3.is_rational_value(zb) and zb.numerator_as_long() != 0)


def py_floordiv(za, zb):
    if z3.is_int_value(zb):
        b = zb.as_long()
        if b > 0:
            return za / zb
        return (-za) / z3.IntVal(-b)
    return z3.If(zb > 0, za / zb, (-za) / (-zb))


def py_mod(za, zb):
    if z3.is_int_value(zb) and zb.as_long() > 0:
        return za % zb
    return za - zb * py_floordiv(za, zb)


def _cmp(op, a, b):
    if isinstance(a, SOpt):
        a = cur().force(a)
    if isinstance(b, SOpt):
        b = cur().force(b)
    if not (is_num(a) and is_num(b)):
        return NotImplemented
    za, zb = _z(a), _z(b)
    if za.sort() != zb.sort():
        if za.sort() != z3.RealSort():
            za = z3.ToReal(za)
        if zb.sort() != z3.RealSort():
            zb = z3.ToReal(zb)
    if za.eq(zb):
        return op in ("<=", ">=", "==")
    r = {"<": za < zb, "<=": za <= zb, ">": za > zb, ">=": za >= zb, "==": za == zb, "!=": za != zb}[op]
    return mk_bool(z3.simplify(r) if z3.is_int_value(za) and z3.is_int_value(zb) else r)


class _Num(Sym):
    __slots__ = ("e",)

    def __init__(self, e):
        self.e = e

    def __add__(self, o):
        return _arith("+", self, o)

    def __radd__(self, o):
        return _arith("+", o, self)

    def __sub__(self, o):
        return _arith("-", self, o)

    def __rsub__(self, o):
        return _arith("-", o, self)

    def __mul__(self, o):
        return _arith("*", self, o)

    def __rmul__(self, o):
        return _arith("*", o, self)

    def __truediv__(self, o):
        return _arith("/", self, o)

    def __rtruediv__(self, o):
        return _arith("/", o, self)

    def __floordiv__(self, o):
        return _arith("//", self, o)

    def __rfloordiv__(self, o):
        return _arith("//", o, self)

    def __mod__(self, o):
        return _arith("%", self, o)

    def __rmod__(self, o):
        return _arith("%", o, self)

    def __neg__(self):
        return type(self)(-self.e) if not isinstance(self, SBool) else mk_int(-_z(self))

    def __pos__(self):
        return self

    def __abs__(self):
        return type(self)(z3.If(self.e >= 0, self.e, -self.e))

    def __lt__(self, o):
        return _cmp("<", self, o)

    def __le__(self, o):
        return _cmp("<=", self, o)

    def __gt__(self, o):
        return _cmp(">", self, o)

    def __ge__(self, o):
        return _cmp(">=", self, o)

    def __eq__(self, o):
        r = _cmp("==", self, o)
        return False if r is NotImplemented else r

    def __ne__(self, o):
        r = _cmp("!=", self, o)
        return True if r is NotImplemented else r

    __hash__ = None

    def __repr__(self):
        return f"{type(self).__name__}({self.e})"


class SInt(_Num):
    __slots__ = ()

    def __bool__(self):
        return cur().branch(self.e != 0)

    def __index__(self):
        raise Unsupported("symbolic int used where a concrete index is needed")

    def __int__(self):
        raise Unsupported("int() of symbolic int outside the interpreter")


class SIntOrNone(SInt):
    """An integer that stands for an Optional[int] of the program whose `None` a protocol models by the integer
    `none_code` (a value no real value takes) -- e.g. the position component of a list walker's `(None, None)` answer
    (contracts/C08_listbox.py NOPOS).  It is an SInt in every respect, except that the comparisons with None the program
    makes on it (`x == None`, `x != None`, `x is None` -- interp.is_ --, and through them `(w, x) == (None, None)`) are
    `x == none_code` instead of a constant False.  A modelling device of protocols, not a model of a Python builtin (nothing
    to cross-check against CPython: CPython compares the real None); arithmetic on it yields plain SInt values."""

    __slots__ = ("none_code",)

    def __init__(self, e, none_code):
        super().__init__(e)
        self.none_code = none_code

    def __eq__(self, o):
        if o is None:
            return mk_bool(self.e == self.none_code)
        return super().__eq__(o)

    def __ne__(self, o):
        if o is None:
            return mk_bool(self.e != self.none_code)
        return super().__ne__(o)

    __hash__ = None

    def __neg__(self):
        return mk_int(-self.e)

    def __abs__(self):
        return mk_int(z3.If(self.e >= 0, self.e, -self.e))


class SReal(_Num):
    __slots__ = ()

    def __bool__(self):
        return cur().branch(self.e != 0)


class SBool(_Num):
    __slots__ = ()

    def __bool__(self):
        return cur().branch(self.e)

    def __and__(self, o):
        if isinstance(o, (SBool, bool)):
            return mk_bool(z3.And(self.e, _zb(o)))
        return NotImplemented

    __rand__ = __and__

    def __or__(self, o):
        if isinstance(o, (SBool, bool)):
            return mk_bool(z3.Or(self.e, _zb(o)))
        return NotImplemented

    __ror__ = __or__

    def __invert__(self):
        return mk_bool(z3.Not(self.e))

    def __eq__(self, o):
        if isinstance(o, (SBool, bool)):
            return mk_bool(self.e == _zb(o))
        return _Num.__eq__(self, o)

    def __ne__(self, o):
        if isinstance(o, (SBool, bool)):
            return mk_bool(self.e != _zb(o))
        return _Num.__ne__(self, o)

    __hash__ = None


class SAtom(Sym):
    """A value from a finite set of Python constants; `e` is the integer code."""

    __slots__ = ("e", "domain")

    def __init__(self, e, domain):
        self.e = e
        self.domain = tuple(domain)

    def __eq__(self, o):
        if isinstance(o, SAtom):
            return mk_bool(self.e == o.e)
        if isinstance(o, SOpt):
            return o.__eq__(self)
        if isinstance(o, Sym):
            return False
        try:
            hash(o)
        except TypeError:
            return False
        if not any(o == d for d in self.domain):
            return False
        return mk_bool(self.e == atom_code(o))

    def __ne__(self, o):
        return neg(self.__eq__(o))

    __hash__ = None

    def __bool__(self):
        falsy = [d for d in self.domain if not d]
        if not falsy:
            return True
        return cur().branch(z3.And(*[self.e != atom_code(d) for d in falsy]))

    def __repr__(self):
        return f"SAtom({self.e} in {self.domain})"


class SOpt(Sym):
    """Optional value: None when `isnone` holds, else `val`."""

    __slots__ = ("isnone", "val")

    def __init__(self, isnone, val):
        self.isnone = isnone
        self.val = val

    def __eq__(self, o):
        if o is None:
            return mk_bool(self.isnone)
        v = cur().force(self)
        return eq(v, o)

    def __ne__(self, o):
        return neg(self.__eq__(o))

    __hash__ = None

    def __bool__(self):
        v = cur().force(self)
        return bool(v)

    def _f(self):
        return cur().force(self)

    def __add__(self, o):
        return self._f() + o

    def __radd__(self, o):
        return o + self._f()

    def __sub__(self, o):
        return self._f() - o

    def __rsub__(self, o):
        return o - self._f()

    def __mul__(self, o):
        return self._f() * o

    def __rmul__(self, o):
        return o * self._f()

    def __lt__(self, o):
        return self._f() < o

    def __le__(self, o):
        return self._f() <= o

    def __gt__(self, o):
        return self._f() > o

    def __ge__(self, o):
        return self._f() >= o

    def __neg__(self):
        return -self._f()

    def __repr__(self):
        return f"SOpt({self.isnone}, {self.val!r})"


class SOpaque(Sym):
    """An individual of an uninterpreted kind (child widget, canvas, callback ...)."""

    __slots__ = ("kind", "e", "meta")

    def __init__(self, kind, e, meta=None):
        self.kind = kind
        self.e = e
        self.meta = meta or {}

    def __eq__(self, o):
        if isinstance(o, SOpaque):
            return mk_bool(self.e == o.e) if self.e.sort() == o.e.sort() else False
        if isinstance(o, SOpt):
            return o.__eq__(self)
        if self.admits_literal(o):
            return mk_bool(self.e == self.literal(o).e)
        return False

    def admits_literal(self, o):
        """Opaque kinds declared with `lit=(types,)` (e.g. Opaque("Bytes", lit=(bytes,))) contain the Python
        constants of those types as individuals, so that `char == b" "` or a cell built from a default
        argument b" " can be compared / mixed with symbolic individuals of the kind."""
        lit = self.meta.get("lit")
        return bool(lit) and isinstance(o, tuple(lit)) and not isinstance(o, Sym)

    def literal(self, value):
        """The individual denoted by a Python constant: one z3 constant per (kind, value); distinct constants
        are distinct individuals (`code(lit_v) = atom_code(v)` for an uninterpreted `code`, asserted groundly)."""
        c = z3.Const(f"{self.kind}!lit!{atom_code(value)}", self.e.sort())
        code = z3.Function(f"{self.kind}!code", self.e.sort(), z3.IntSort())
        if _current:
            cur().assume(code(c) == atom_code(value))
        return SOpaque(self.kind, c, dict(self.meta))

    def __ne__(self, o):
        return neg(self.__eq__(o))

    __hash__ = None

    def __repr__(self):
        return f"SOpaque<{self.kind}>({self.e})"


class SFmt(Sym):
    """A `str` assembled by f-strings / `+` from literal text and decimal renderings of symbolic ints
    (`f"[{y + 1:d};{x + 1:d}R"`): kept as the tuple of its parts (str | SInt), adjacent literals merged.
    Model of `format(n, "d")`: the canonical decimal numeral of n (so two SFmt are equal iff their literal
    skeletons agree and the ints agree — numerals do not contain the separators used here)."""

    __slots__ = ("parts",)

    def __init__(self, parts):
        out = []
        for p in parts:
            if isinstance(p, str) and out and isinstance(out[-1], str):
                out[-1] += p
            elif not (isinstance(p, str) and not p):
                out.append(p)
        self.parts = tuple(out)

    def __add__(self, o):
        if isinstance(o, SFmt):
            return SFmt(self.parts + o.parts)
        if isinstance(o, str):
            return SFmt(self.parts + (o,))
        return NotImplemented

    def __radd__(self, o):
        if isinstance(o, str):
            return SFmt((o,) + self.parts)
        return NotImplemented

    __hash__ = None

    def __repr__(self):
        return f"SFmt{self.parts!r}"


class SCases(Sym):
    """A value that is one of several structurally different alternatives -- e.g. a size tuple of unknown
    arity: (), (c,) or (c, r) -- each guarded by a z3 condition; the guards are mutually exclusive and
    jointly exhaustive.  `State.force` picks the alternative (forking over the feasible ones); equality
    with another value is a formula (never forks); nothing else is defined on it."""

    __slots__ = ("cases",)

    def __init__(self, cases):
        self.cases = [(c if not isinstance(c, SBool) else c.e, v) for c, v in cases]

    def __eq__(self, o):
        if isinstance(o, SCases):
            return either(*[both(mk_bool(z3.And(c1, c2)), struct_eq(v1, v2)) for c1, v1 in self.cases for c2, v2 in o.cases])
        return either(*[both(mk_bool(c), struct_eq(v, o)) for c, v in self.cases])

    def __ne__(self, o):
        return neg(self.__eq__(o))

    __hash__ = None

    def __repr__(self):
        return f"SCases({self.cases!r})"


def struct_eq(a, b):
    """Equality as a formula (never forks), component-wise on tuples of statically known arity."""
    if isinstance(a, SCases):
        return a.__eq__(b)
    if isinstance(b, SCases):
        return b.__eq__(a)
    if isinstance(a, tuple) or isinstance(b, tuple):
        if not (isinstance(a, tuple) and isinstance(b, tuple)) or len(a) != len(b):
            return False
        return both(*[struct_eq(x, y) for x, y in zip(a, b)])
    if isinstance(a, SOpt) or isinstance(b, SOpt):
        return opt_eq(a, b)
    return eq(a, b)


def _as_cases(ce, x):
    if isinstance(x, SCases):
        return [(z3.And(ce, c), v) for c, v in x.cases]
    return [(ce, x)]


# ---------------------------------------------------------------------------------------------
# dual-use helpers (symbolic or concrete)


def is_none(x):
    """`x is None` for optional values (dual use; forks when symbolic)."""
    if isinstance(x, SOpt):
        return bool(mk_bool(x.isnone))
    if isinstance(x, SAtom):
        return bool(x == None)  # noqa: E711
    return x is None


def val(x):
    """The value inside an optional (after `is_none(x)` answered False); dual use."""
    return x.val if isinstance(x, SOpt) else x


def neg(a):
    if isinstance(a, SBool):
        return mk_bool(z3.Not(a.e))
    if isinstance(a, Sym):
        return not bool(a)
    return not a


def both(*xs):
    """Non-forking conjunction."""
    if any(isinstance(x, SBool) for x in xs):
        if any(x is False for x in xs):
            return False
        return mk_bool(z3.And(*[_zb(x) for x in xs]))
    for x in xs:
        if not x:
            return False
    return True


all_of = both


def either(*xs):
    if any(isinstance(x, SBool) for x in xs):
        if any(x is True for x in xs):
            return True
        return mk_bool(z3.Or(*[_zb(x) for x in xs]))
    for x in xs:
        if x:
            return True
    return False


any_of = either


def implies(a, b):
    if isinstance(a, SBool) or isinstance(b, SBool):
        if a is False or b is True:
            return True
        return mk_bool(z3.Implies(_zb(a), _zb(b)))
    return (not a) or bool(b)


def eq(a, b):
    r = a == b
    if r is NotImplemented:
        return False
    return r


def ite(c, a, b):
    """Non-forking conditional where the two values have the same structure (numbers, booleans, atoms,
    opaque individuals of one kind, optionals, tuples of those); forking otherwise."""
    if not isinstance(c, Sym):
        return a if c else b
    if isinstance(c, SBool):
        r = _ite_struct(c.e, a, b)
        if r is not _NOITE:
            return r
    return a if bool(c) else b


_NOITE = object()
_SEQ_NAMES = ("SSeq", "_MovedSeq", "LiveEnum")


class SIte(Sym):
    """A deferred conditional between two values of different structure; only equality is defined."""

    __slots__ = ("c", "a", "b")

    def __init__(self, c, a, b):
        self.c, self.a, self.b = c, a, b

    def __eq__(self, o):
        ea, eb = eq(self.a, o), eq(self.b, o)
        return mk_bool(z3.If(self.c, _zb(ea) if isinstance(ea, (SBool, bool)) else z3.BoolVal(bool(ea)), _zb(eb) if isinstance(eb, (SBool, bool)) else z3.BoolVal(bool(eb))))

    def __ne__(self, o):
        return neg(self.__eq__(o))

    __hash__ = None

    def __getitem__(self, k):
        return SIte(self.c, self.a[k], self.b[k])


def _ite_struct(ce, a, b):
    if a is b:
        return a
    if isinstance(a, SCases) or isinstance(b, SCases):
        return SCases(_as_cases(ce, a) + _as_cases(z3.Not(ce), b))
    if type(a).__name__ == "SObj" and type(b).__name__ == "SObj" and set(a.fields) == set(b.fields) and (a.cls is b.cls or issubclass(b.cls, a.cls)):
        # two objects of one class with the same fields (canvases stored in a list): field-wise conditional
        parts = {k: _ite_struct(ce, a.fields[k], b.fields[k]) for k in a.fields}
        if any(p is _NOITE for p in parts.values()):
            return _NOITE
        o = type(a)(a.cls, parts, a.base_list)
        o.shape = a.shape
        return o
    if type(a).__name__ == "SFMap" and type(b).__name__ == "SFMap":
        # two dicts with symbolic keys (pyvc.fmap): a frozen map whose observers are the pointwise conditionals
        from .fmap import _ite_maps

        return _ite_maps(ce, a, b)
    if isinstance(a, (bool, SBool)) and isinstance(b, (bool, SBool)):
        return mk_bool(z3.If(ce, _zb(a), _zb(b)))
    if is_num(a) and is_num(b) and not isinstance(a, (bool, SBool)) and not isinstance(b, (bool, SBool)):
        za, zb = _z(a), _z(b)
        if za.sort() == zb.sort():
            r = z3.If(ce, za, zb)
            return SReal(r) if za.sort() == z3.RealSort() else mk_int(r)
        return _NOITE
    if isinstance(a, SOpaque) and isinstance(b, SOpaque) and a.kind == b.kind:
        return SOpaque(a.kind, z3.If(ce, a.e, b.e), dict(a.meta))
    if isinstance(a, SOpaque) and a.admits_literal(b):
        return _ite_struct(ce, a, a.literal(b))
    if isinstance(b, SOpaque) and b.admits_literal(a):
        return _ite_struct(ce, b.literal(a), b)
    if getattr(a, "is_text", False) and getattr(b, "is_text", False) and a.kind == b.kind:
        # two texts of one kind (e.g. the text component of an element read at a symbolic index out of `old ++ [new]`):
        # the derived text whose length, elements and widths are the conditionals (pyvc.text.STextIte)
        from .text import STextIte

        return STextIte(mk_bool(ce), a, b)
    if type(a).__name__ in _SEQ_NAMES or type(b).__name__ in _SEQ_NAMES:
        # two immutable sequence values (rows of a nested list): pointwise conditional
        from .seqs import SSeq, seq_len, to_sseq

        if isinstance(a, (SSeq, tuple)) and isinstance(b, (SSeq, tuple)):
            sa, sb = to_sseq(a), to_sseq(b)
            c = mk_bool(ce)
            def pointwise(j):
                # an index beyond the (concrete) length of one alternative can only be an element of the other one
                la, lb = seq_len(sa), seq_len(sb)
                # (an EMPTY concrete alternative has no element at all: any in-range index belongs to the other one)
                if isinstance(la, int) and la == 0:
                    return sb.get(j)
                if isinstance(lb, int) and lb == 0:
                    return sa.get(j)
                if isinstance(j, int) and isinstance(la, int) and not 0 <= j < la:
                    return sb.get(j)
                if isinstance(j, int) and isinstance(lb, int) and not 0 <= j < lb:
                    return sa.get(j)
                return ite(c, sa.get(j), sb.get(j))

            r = SSeq(ite(c, seq_len(sa), seq_len(sb)), pointwise, sa.shape or sb.shape, None, "ite")
            # model fields both alternatives carry (component prefix sums): the conditional of the two
            for comp in set(sa.cpsum) & set(sb.cpsum):
                r.cpsum[comp] = lambda k, fa=sa.cpsum[comp], fb=sb.cpsum[comp]: ite(c, fa(k), fb(k))
            return r
        return _NOITE
    if isinstance(a, (SAtom,)) or isinstance(b, (SAtom,)):
        def code(x):
            if isinstance(x, SAtom):
                return x.e, x.domain
            if is_atomic_const(x):
                return z3.IntVal(atom_code(x)), (x,)
            return None, None
        ea, da = code(a)
        eb, db = code(b)
        if ea is not None and eb is not None:
            return SAtom(z3.If(ce, ea, eb), tuple(dict.fromkeys(da + db)))
        return _NOITE
    if isinstance(a, tuple) and isinstance(b, tuple) and len(a) == len(b):
        def comp(x, y):
            if type(x).__name__ == "LRef" or type(y).__name__ == "LRef":
                # a list object met as a COMPONENT of a tuple (`shards.append((n, new_cviews))` read back at a symbolic
                # index): the conditional is over its content at the time of the read -- an immutable sequence value, so
                # nothing can be mutated through the result (no aliasing is introduced); the by-value reading of
                # seqs.fresh_seq for lists nested in tuples
                cx = x.seq if type(x).__name__ == "LRef" else x
                cy = y.seq if type(y).__name__ == "LRef" else y
                ok = _SEQ_NAMES + ("tuple",)
                if type(cx).__name__ in ok and type(cy).__name__ in ok:
                    return _ite_struct(ce, cx, cy)
                return _NOITE
            return _ite_struct(ce, x, y)

        parts = [comp(x, y) for x, y in zip(a, b)]
        return tuple(SIte(ce, x, y) if p is _NOITE else p for p, x, y in zip(parts, a, b))
    if isinstance(a, SOpt) or isinstance(b, SOpt) or a is None or b is None:
        def split(x):
            if isinstance(x, SOpt):
                return x.isnone, x.val
            if x is None:
                return z3.BoolVal(True), None
            return z3.BoolVal(False), x
        na, va = split(a)
        nb, vb = split(b)
        if va is None and vb is None:
            return None
        inner = vb if va is None else (va if vb is None else _ite_struct(ce, va, vb))
        if inner is _NOITE:
            return _NOITE
        return SOpt(z3.If(ce, na, nb), inner)
    if not isinstance(a, Sym) and not isinstance(b, Sym) and type(a) is type(b) and a == b:
        return a
    return _NOITE


def imin(*xs):
    if len(xs) == 1:
        xs = tuple(xs[0])
    r = xs[0]
    for x in xs[1:]:
        r = ite(x < r, x, r)
    return r


def imax(*xs):
    if len(xs) == 1:
        xs = tuple(xs[0])
    r = xs[0]
    for x in xs[1:]:
        r = ite(x > r, x, r)
    return r


def iabs(x):
    return abs(x)


def fdiv(a, b):
    """Python floor division (dual use)."""
    return a // b


def fmod(a, b):
    return a % b


def trunc_real(x):
    """int(x) of a real: truncation toward zero."""
    if isinstance(x, SReal):
        fl = z3.ToInt(x.e)
        return mk_int(z3.If(x.e >= 0, fl, -z3.ToInt(-x.e)))
    return int(x)


def to_real(x):
    """float(x) (dual use)."""
    if isinstance(x, (SInt, SBool)):
        return SReal(z3.ToReal(_z(x)))
    if isinstance(x, SReal):
        return x
    return float(x)


def iround(x):
    """round(x) to an int, banker's rounding as CPython (dual use)."""
    if isinstance(x, SReal):
        fl = z3.ToInt(x.e)
        frac = x.e - z3.ToReal(fl)
        half = z3.RealVal("1/2")
        return mk_int(z3.If(frac < half, fl, z3.If(frac > half, fl + 1, z3.If(fl % 2 == 0, fl, fl + 1))))
    return round(x)


def itrunc(x):
    return trunc_real(x)


def forall(lo, hi, fn, check_empty=True):
    """For all integers j with lo <= j < hi: fn(j).  Dual use: natively a Python all(); symbolically a
    z3 quantifier whose body also carries the facts assumed while evaluating it (element bounds ...).
    check_empty=False skips the solver query "is the range empty on this path?" (an optimisation only; with
    quantified facts in the path condition that query tends to run into its time limit)."""
    if isinstance(lo, int) and isinstance(hi, int):
        r = True
        for j in range(lo, hi):
            r = both(r, fn(j))
        return r
    st = cur()
    if st.capture is None and check_empty and getattr(st.cfg, "forall_range_check", True):
        # (a shortcut only: an empty range gives a vacuous quantifier anyway; a contract whose path conditions
        # are quantifier-heavy switches it off with `forall_range_check = False` because the check itself is slow)
        if st.qf_refutes(_z(lo) < _z(hi)):
            return True  # empty range on this path (refuted by the quantifier-free part of the path condition alone)
        if st.n_quantified and not st.cfg.qf_branching and not getattr(st.cfg, "qf_forall_only", False):
            r0, _m = st._check(_z(lo) < _z(hi), 1000)
            if r0 == z3.unsat:
                return True  # empty range on this path
    j = z3.Int(st.fresh_name("q"))
    saved = st.capture
    st.capture = []
    try:
        body = fn(SInt(j))
        facts = list(st.capture)
    finally:
        st.capture = saved
    b = _zb(body) if isinstance(body, (SBool, bool)) else z3.BoolVal(bool(body))
    rng = z3.And(_z(lo) <= j, j < _z(hi))
    if facts:
        # facts assumed while evaluating the body (element bounds, definitional axioms) hold for every
        # in-range index: they are asserted on their own, not made part of the formula (which may be a goal)
        st.assume(z3.ForAll([j], z3.Implies(rng, z3.And(*facts))))
    return mk_bool(z3.ForAll([j], z3.Implies(rng, b)))


_ZSTR: dict = {}


def zstr(e):
    """`str(e)` of a z3 term, cached per term (pretty-printing a large index term again and again dominated the run time of
    the container contracts).  The cache holds the term itself, so its id is not reused while the entry exists."""
    k = e.get_id()
    hit = _ZSTR.get(k)
    if hit is None:
        if len(_ZSTR) > 200000:
            _ZSTR.clear()
        hit = _ZSTR[k] = (e, str(e))
    return hit[1]


def arbitrary(name):
    """An arbitrary integer: one unconstrained constant per (path, name), shared by loop invariants, contracts of
    callees and postconditions.  Nothing may be assumed about it except instances of facts that hold for every
    integer (proved lemmas, verified per-index postconditions), so a formula proved for it holds universally
    (universal generalisation) -- this keeps "for every index" obligations quantifier-free."""
    st = cur()
    d = st.ghost.setdefault("arbitrary", {})
    if name not in d:
        d[name] = st.fresh_int(name)
    return d[name]


def lazy_forall(lo, hi, fn):
    """Record the fact `for all lo <= j < hi: fn(j)` without asserting a quantifier; `instantiate(j...)` asserts its
    instances at the indices in play (DESIGN 3.7: ground instantiation)."""
    cur().ghost.setdefault("lazy_forall", []).append((lo, hi, fn))


def instantiate(*indices):
    st = cur()
    for lo, hi, fn in list(st.ghost.get("lazy_forall", [])):
        for j in indices:
            st.assume(implies(both(lo <= j, j < hi), fn(j)))


def opt_isnone(x):
    """`x is None` as a formula (never forks)."""
    if isinstance(x, SOpt):
        return mk_bool(x.isnone)
    if isinstance(x, SAtom):
        return x == None  # noqa: E711
    return x is None


def opt_eq(a, b):
    """Equality of optional values as a formula (never forks)."""
    na, nb = opt_isnone(a), opt_isnone(b)
    va, vb = val(a), val(b)
    if va is None or vb is None:
        return both(na, nb)
    if isinstance(va, tuple) and isinstance(vb, tuple):
        inner = both(*[eq(x, y) for x, y in zip(va, vb)]) if len(va) == len(vb) else False
    else:
        inner = eq(va, vb)
    return either(both(na, nb), both(neg(na), neg(nb), inner))
