"""Models of Python builtins (assumed contracts on the runtime; cross-checked by xcheck_builtins.py)."""
from __future__ import annotations

import builtins as _bi
import contextlib
import enum
import functools
import operator
import types

import z3

from . import seqs as Q
from . import values as V
from .engine import PyRaise, SExc
from .seqs import DRef, LRef, ModelObj, SObj, SRange, SSeq, SSlice
from .values import SAtom, SBool, SInt, SOpaque, SOpt, SReal, Sym, Unsupported, both, either, imax, imin, implies, is_num, ite, mk_bool, mk_int, neg


def _raise(cls, msg=""):
    raise PyRaise(SExc(cls, (msg,), site="builtin"))


def norm_index(st, i, n, exc_msg="list index out of range"):
    """Normalise a subscript index against length n; IndexError obligation/branch when out of range."""
    i = st.force(i)
    if isinstance(i, bool):
        i = int(i)
    if not is_num(i):
        _raise(TypeError, "indices must be integers")
    if isinstance(i, int) and isinstance(n, int):
        if -n <= i < n:
            return i % n if n else i
        _raise(IndexError, exc_msg)
    ok = both(V._cmp(">=", i, -n) if True else None, V._cmp("<", i, n))
    st.partial(ok, IndexError, exc_msg)
    return ite(V._cmp("<", i, 0), i + n, i)


def seq_repeat(st, s, n):
    """s * n for symbolic n (n <= 0 gives empty)."""
    s = Q.to_sseq(s)
    ln = s.length
    total = ite(V._cmp(">", n, 0), ln * n, 0)

    def getter(i):
        return s.get(i % ite(V._cmp(">", ln, 0), ln, 1))

    return SSeq(total, getter, s.shape, None, "rep")


def get_subscript(ip, st, obj, idx):
    obj = st.force(obj)
    if isinstance(obj, ModelObj):
        return obj.py_getitem(ip, st, idx)
    if isinstance(obj, SObj):
        if obj.base_list:
            return get_subscript(ip, st, obj.fields[obj.base_list], idx)
        f = ip.getattr(st, obj, "__getitem__")
        return ip.call(st, f, [idx])
    if isinstance(obj, DRef) or isinstance(obj, dict):
        d = obj.d if isinstance(obj, DRef) else obj
        return dict_get(ip, st, d, idx, None, strict=True)
    if isinstance(obj, LRef):
        if Q.is_nested(obj.seq) and not isinstance(idx, (SSlice, slice)):
            # a row of a nested list (rows are held by value): a view that writes back into its slot
            return Q.RowRef(obj, norm_index(st, idx, Q.seq_len(obj.seq), "list index out of range"))
        r = get_subscript(ip, st, obj.seq, idx)
        if isinstance(idx, (SSlice, slice)):
            return LRef(r)
        return r
    from .text import SText

    if isinstance(obj, SText):
        n = obj.length
        if isinstance(idx, (SSlice, slice)):
            if isinstance(idx, slice):
                idx = SSlice(idx.start, idx.stop, idx.step)
            start, stop, step = Q.slice_indices(idx, n)
            if not (isinstance(step, int) and step == 1):
                raise Unsupported("extended slice of a text")
            return obj.slice(start, imax(start, stop))
        k = norm_index(st, idx, n, "string index out of range" if obj.kind == "str" else "index out of range")
        return obj.get(k)
    if isinstance(obj, (tuple, SSeq, SRange)):
        n = Q.seq_len(obj)
        if isinstance(idx, (SSlice, slice)):
            if isinstance(idx, slice):
                idx = SSlice(idx.start, idx.stop, idx.step)
            start, stop, step = Q.slice_indices(idx, n)
            if isinstance(step, int) and step == 1:
                return Q.seq_slice1(obj, start, imax(start, stop))
            if all(isinstance(x, int) for x in (start, stop, step)) and isinstance(obj, tuple):
                return tuple(obj[i] for i in range(start, stop, step))
            base = Q.to_sseq(obj)
            return SSeq(Q.range_len(start, stop, step), lambda i: base.get(start + i * step), base.shape, None, "xslice")
        k = norm_index(st, idx, n, "index out of range")
        return Q.seq_get(obj, k)
    if isinstance(obj, (str, bytes)) and not isinstance(idx, Sym):
        try:
            return obj[idx]
        except IndexError as ex:
            _raise(IndexError, str(ex))
    if isinstance(obj, SOpaque):
        return ip.task.opaque_subscript(ip, st, obj, idx)
    if obj is None:
        _raise(TypeError, "'NoneType' object is not subscriptable")
    if not isinstance(obj, Sym) and not isinstance(idx, Sym):
        try:
            return obj[idx]
        except (IndexError, KeyError, TypeError) as ex:
            _raise(type(ex), str(ex))
    raise Unsupported(f"subscript of {type(obj).__name__} by {type(idx).__name__}")


def set_subscript(ip, st, obj, idx, v):
    obj = st.force(obj)
    if isinstance(obj, ModelObj):
        return obj.py_setitem(ip, st, idx, v)
    if isinstance(obj, SObj) and obj.base_list:
        f = ip.getattr(st, obj, "__setitem__")
        return ip.call(st, f, [idx, v])
    if isinstance(obj, DRef):
        idx = st.force(idx)
        if isinstance(idx, SAtom):
            # `d[k] = v` with k one of finitely many constants (shapes.Atom asserts that k IS one of its domain): one
            # path per constant the key can equal on this path, each with an ordinary constant-key store -- the same
            # case split dict_get makes for a read.  (CPython: the key's value decides the slot; nothing else happens.)
            dom = list(idx.domain)
            idx = dom[st.choose([idx == dd for dd in dom])]
        if isinstance(idx, Sym):
            raise Unsupported("dict store with symbolic key")
        obj.d[idx] = v
        return None
    if isinstance(obj, LRef):
        list_setitem(ip, st, obj, idx, v)
        return None
    raise Unsupported(f"subscript store on {type(obj).__name__}")


def del_subscript(ip, st, obj, idx):
    obj = st.force(obj)
    if isinstance(obj, ModelObj):
        return obj.py_delitem(ip, st, idx)
    if isinstance(obj, SObj) and obj.base_list:
        f = ip.getattr(st, obj, "__delitem__")
        return ip.call(st, f, [idx])
    if isinstance(obj, DRef):
        if isinstance(idx, Sym):
            raise Unsupported("dict delete with symbolic key")
        if idx not in obj.d:
            _raise(KeyError, repr(idx))
        del obj.d[idx]
        return None
    if isinstance(obj, LRef):
        list_delitem(ip, st, obj, idx)
        return None
    raise Unsupported(f"del subscript on {type(obj).__name__}")


def dict_get(ip, st, d, k, default, strict=False):
    k = st.force(k)
    if not isinstance(k, Sym):
        try:
            hash(k)
        except TypeError:
            _raise(TypeError, "unhashable")
        if k in d:
            return d[k]
        if strict:
            _raise(KeyError, repr(k))
        return default
    if isinstance(k, SAtom):
        keys = [kk for kk in d if any(kk == dd for dd in k.domain)]
        hit = False
        for kk in keys:
            hit = either(hit, k == kk)
        if strict:
            st.partial(hit, KeyError, "key")
            result = None
            first = True
            for kk in reversed(keys):
                result = d[kk] if first else _ite_val(st, k == kk, d[kk], result)
                first = False
            return result
        result = default
        for kk in reversed(keys):
            result = _ite_val(st, k == kk, d[kk], result)
        return result
    if isinstance(k, (SInt,)):
        keys = [kk for kk in d if isinstance(kk, int) and not isinstance(kk, bool)]
        idx = st.choose([V._cmp("==", k, kk) for kk in keys] + [both(*[V._cmp("!=", k, kk) for kk in keys]) if keys else True])
        if idx < len(keys):
            return d[keys[idx]]
        if strict:
            _raise(KeyError, "key")
        return default
    if isinstance(k, ModelObj) and all(isinstance(kk, str) for kk in d):
        # a modelled str as the key of a dict of distinct str constants: its own == decides (mutually exclusive)
        keys = list(d)
        hits = [k == kk for kk in keys]
        idx = st.choose(hits + [both(*[neg(h) for h in hits]) if hits else True])
        if idx < len(keys):
            return d[keys[idx]]
        if strict:
            _raise(KeyError, "key")
        return default
    if getattr(k, "is_text", False) and d and all(isinstance(kk, (bytes if k.kind == "bytes" else str)) for kk in d):
        # a modelled bytes / str as the key of a dict of distinct constants of the same kind: equality with each key
        # (mutually exclusive because the constants are distinct); hash equality follows value equality for bytes / str
        from .text import text_eq

        keys = list(d)
        hits = [text_eq(k, kk) for kk in keys]
        idx = st.choose(hits + [both(*[neg(h) for h in hits])])
        if idx < len(keys):
            return d[keys[idx]]
        if strict:
            _raise(KeyError, "key")
        return default
    raise Unsupported(f"dict lookup with key {type(k).__name__}")


def _ite_val(st, c, a, b):
    if c is True:
        return a
    if c is False:
        return b
    numeric = lambda x: is_num(x) and not isinstance(x, (bool, SBool))  # noqa: E731
    if numeric(a) and numeric(b):
        return ite(c, a, b)
    if isinstance(a, (bool, SBool)) and isinstance(b, (bool, SBool)):
        return ite(c, a, b)
    return a if st.branch(c) else b


# --------------------------------------------------------------------------------------------- list mutation models


def list_setitem(ip, st, lref: LRef, idx, v):
    s = lref.seq
    n = Q.seq_len(s)
    if isinstance(idx, (SSlice, slice)):
        if Q.is_nested(s):
            raise Unsupported("slice assignment on a nested list")
        if isinstance(idx, slice):
            idx = SSlice(idx.start, idx.stop, idx.step)
        vs = ip.iter_view(st, st.force(v))
        if isinstance(vs, LRef):
            vs = vs.seq
        step_raw = st.force(idx.step)
        if step_raw is None and st.force(idx.start) is None and st.force(idx.stop) is None:
            lref.seq = vs  # lst[:] = values : in-place replacement of the whole contents
            return
        start, stop, step = Q.slice_indices(idx, n)
        k = Q.seq_len(vs)
        if step_raw is None or (isinstance(step, int) and step == 1) or (V.is_sym(step) and st.branch(V._cmp("==", step, 1))):
            stop2 = imax(start, stop)
            lref.seq = Q.seq_concat(Q.seq_concat(Q.seq_slice1(s, 0, start), vs), Q.seq_slice1(s, stop2, n))
            return
        cnt = Q.range_len(start, stop, step)
        st.partial(V._cmp("==", cnt, k) if V.is_sym(cnt) or V.is_sym(k) else cnt == k, ValueError, "attempt to assign sequence of size k to extended slice of size n")
        base = Q.to_sseq(s)
        vv = Q.to_sseq(vs)

        def getter(i):
            hit = Q.in_range(i, start, stop, step)
            j = (i - start) // step
            return _ite_val(st, hit, vv.get(j), base.get(i))

        lref.seq = SSeq(n, getter, base.shape, None, "xset")
        return
    k = norm_index(st, idx, n, "list assignment index out of range")
    if Q.is_nested(s):
        v = Q.row_value(v)
    lref.seq = Q.seq_update(s, k, v)


def list_delitem(ip, st, lref: LRef, idx):
    s = lref.seq
    n = Q.seq_len(s)
    if isinstance(idx, (SSlice, slice)):
        if isinstance(idx, slice):
            idx = SSlice(idx.start, idx.stop, idx.step)
        start, stop, step = Q.slice_indices(idx, n)
        if isinstance(step, int) and step == 1:
            lref.seq = Q.seq_delete1(s, start, imax(start, stop))
            return
        cnt = Q.range_len(start, stop, step)
        base = Q.to_sseq(s)
        # normalise to ascending (lo, lo+st, ...): the removed index set
        lo = ite(V._cmp(">", step, 0), start, start + (cnt - 1) * step)
        stp = ite(V._cmp(">", step, 0), step, -step)

        def getter(j):
            # j-th survivor: skip removed indices. survivors before lo: identity; inside: j + (#removed <= idx)
            # closed form: for j < lo -> j ; else t = j - lo ; block = t // (stp-1) if stp > 1 ...
            raise Unsupported("content of an extended-slice deletion (only its length is modelled)")

        lref.seq = SSeq(n - cnt, getter, base.shape, None, "xdel")
        return
    k = norm_index(st, idx, n, "list assignment index out of range")
    lref.seq = Q.seq_delete1(s, k, k + 1)


def list_method(ip, st, lref: LRef, name, args, kwargs):
    s = lref.seq
    n = Q.seq_len(s)
    if name == "append":
        lref.seq = Q.seq_append(s, Q.row_value(args[0]) if Q.is_nested(s) else args[0])
        if getattr(args[0], "shared", False):
            lref.rows_shared = True  # it now holds a row object that another list holds too (seqs.row_value)
        return None
    if name == "extend" or name == "__iadd__":
        if Q.is_nested(s):
            raise Unsupported("extend of a nested list")
        vs = ip.iter_view(st, st.force(args[0]))
        if isinstance(vs, LRef):
            vs = vs.seq
        lref.seq = Q.seq_concat(s, vs)
        return lref if name == "__iadd__" else None
    if name == "insert":
        i = st.force(args[0])
        k = ite(V._cmp("<", i, 0), imax(i + n, 0), imin(i, n))
        lref.seq = Q.seq_insert(s, k, Q.row_value(args[1]) if Q.is_nested(s) else args[1])
        if getattr(args[1], "shared", False):
            lref.rows_shared = True
        return None
    if name == "pop":
        i = st.force(args[0]) if args else -1
        empty = V._cmp("==", n, 0) if V.is_sym(n) else n == 0
        if (empty is True) or (empty is not False and st.branch(empty)):
            _raise(IndexError, "pop from empty list")
        k = norm_index(st, i, n, "pop index out of range")
        v = Q.seq_get(s, k)
        lref.seq = Q.seq_delete1(s, k, k + 1)
        if Q.is_nested(s):
            v = LRef(v)  # the popped row: a detached list (rows are never shared between slots)
        return v
    if name == "clear":
        lref.seq = ()
        return None
    if name == "copy":
        return LRef(s)
    if name == "reverse":
        base = Q.to_sseq(s)
        if isinstance(s, tuple):
            lref.seq = tuple(reversed(s))
            return None
        # model fields of the reversed list: the sum of its first k elements is the sum of the last k elements of
        # the original, P(n) - P(n - k) (for `psum` and for every component prefix sum `cpsum[c]`); the defining
        # equation r.P(k+1) = r.P(k) + r[k] is then the original's equation at index n-1-k, which the original's
        # getter instantiates when r[k] = base[n-1-k] is read
        rpsum = None
        if base.psum:
            rpsum = lambda k, f=base.psum: f(n) - f(n - k)  # noqa: E731
        r = SSeq(n, lambda i: base.get(n - 1 - i), base.shape, rpsum, "rev")
        for c, f in base.cpsum.items():
            r.cpsum[c] = lambda k, f=f: f(n) - f(n - k)
        r.measure = base.measure
        lref.seq = r
        return None
    if name == "__imul__":
        k = st.force(args[0])
        if isinstance(k, int) and isinstance(s, tuple):
            lref.seq = s * k
        else:
            lref.seq = seq_repeat(st, s, k)
        return lref
    if name == "__setitem__":
        list_setitem(ip, st, lref, args[0], args[1])
        return None
    if name == "__delitem__":
        list_delitem(ip, st, lref, args[0])
        return None
    if name == "__getitem__":
        return get_subscript(ip, st, lref, args[0])
    if name == "__len__":
        return n
    if name in ("index", "remove", "count", "__contains__"):
        x = args[0]
        if isinstance(s, tuple):
            # concrete length: fork over the first matching position
            conds = []
            none_before = True
            for j, item in enumerate(s):
                e = ip.equals(st, item, x)
                conds.append(both(none_before, e))
                none_before = both(none_before, neg(e))
            conds.append(none_before)
            j = st.choose(conds)
            if name == "__contains__":
                return j < len(s)
            if name == "count":
                raise Unsupported("list.count")
            if j == len(s):
                _raise(ValueError, "x not in list")
            if name == "index":
                return j
            lref.seq = Q.seq_delete1(s, j, j + 1)
            return None
        # symbolic length: first-occurrence index as an under-specified function of (list, x)
        memo = st.ghost.setdefault("first_index", {})
        mkey = (id(s), repr(getattr(x, "e", x)))
        if mkey in memo:
            j = memo[mkey]
        else:
            sure = getattr(ip.task.c, "assume_index_found", False) and getattr(s, "name", "") == "sorted"

            def differs(i):
                return neg(ip.equals(st, Q.seq_get(s, i), x))

            if not sure and st.fork(2) == 1:
                # ValueError exactly when no element equals x (left unspecified where element equality would fork)
                try:
                    st.assume(V.forall(0, n, differs))
                except Unsupported:
                    pass
                _raise(ValueError, "x not in list")
            j = st.fresh_int("idx")
            st.assume(V._cmp(">=", j, 0))
            st.assume(V._cmp("<", j, n))
            try:
                st.assume(ip.equals(st, Q.seq_get(s, j), x))
                # ... and it is the FIRST such index, as list.index / list.remove find it
                st.assume(V.forall(0, j, differs))
            except Unsupported:
                pass
            memo[mkey] = j
        if name == "index":
            return j
        if name == "remove":
            lref.seq = Q.seq_delete1(s, j, j + 1)
            lref.last_removed = j
            return None
        raise Unsupported(f"list.{name} on symbolic list")
    if name == "sort":
        base = Q.to_sseq(s)
        perm = z3.Function(st.fresh_name("sortperm"), z3.IntSort(), z3.IntSort())

        def getter(i):
            p = mk_int(perm(V._z(i)))
            st2 = V.cur()
            st2.assume(V._cmp(">=", p, 0))
            st2.assume(V._cmp("<", p, n))
            return base.get(p)

        lref.seq = SSeq(n, getter, base.shape, None, "sorted")
        lref.sort_perm = perm
        return None
    raise Unsupported(f"list.{name}")


def call_method(ip, st, recv, name, args, kwargs):
    if isinstance(recv, ModelObj):
        return recv.py_call(ip, st, name, args, kwargs)
    if isinstance(recv, tuple) and recv and recv[0] == "super":
        _, obj, cls = recv
        if cls is list and obj.base_list:
            r = list_method(ip, st, obj.fields[obj.base_list], name, args, kwargs)
            obj.trace.append(("list-op", name, getattr(obj.fields[obj.base_list], "last_removed", None)))
            return r
        if cls is object and name == "__init__":
            return None
        if cls is type and name == "__init__" and len(args) == 3 and not kwargs:
            # super().__init__(name, bases, namespace) in a metaclass whose next __init__ in the MRO is type's:
            # CPython's type_init (Objects/typeobject.c) only validates the argument count (1 or 3 positional
            # arguments) and returns -- the class object was completed by type.__new__; it reads neither `bases`
            # nor the namespace.  (cross-check: static check `type-init-is-a-no-op`, contracts/C14_metasignals.py)
            return None
        raise Unsupported(f"super().{name} resolved to {cls.__name__}")
    if isinstance(recv, SObj) and recv.base_list:
        return list_method(ip, st, recv.fields[recv.base_list], name, args, kwargs)
    if isinstance(recv, LRef):
        return list_method(ip, st, recv, name, args, kwargs)
    if isinstance(recv, SSlice):
        if name == "indices":
            n = st.force(args[0])
            return tuple(Q.slice_indices(recv, n))
    if isinstance(recv, DRef):
        d = recv.d
        if args and isinstance(args[0], SAtom) and name in ("setdefault", "pop", "__contains__"):
            k = args[0]
            i = st.choose([k == dv for dv in k.domain])
            args = [k.domain[i], *args[1:]]
        if name == "get":
            return dict_get(ip, st, d, args[0], args[1] if len(args) > 1 else None)
        if name == "items":
            return tuple(d.items())
        if name == "keys":
            return tuple(d.keys())
        if name == "values":
            return tuple(d.values())
        if name == "copy":
            return DRef(d)
        if name == "update":
            for a in args:
                if isinstance(a, (LRef, SSeq)) and not isinstance(Q.seq_len(a), int):
                    raise Unsupported("dict.update(<sequence of symbolic length>) on a dict with constant keys")
                if isinstance(a, LRef):
                    a = a.seq
                src = a.d if isinstance(a, DRef) else dict(a if not isinstance(a, tuple) else list(a))
                d.update(src)
            d.update(kwargs)
            return None
        if name == "setdefault":
            k = args[0]
            if isinstance(k, Sym):
                raise Unsupported("setdefault with symbolic key")
            if k not in d:
                d[k] = args[1] if len(args) > 1 else None
            return d[k]
        if name == "pop":
            k = args[0]
            if isinstance(k, Sym):
                raise Unsupported("dict.pop with symbolic key")
            if k in d:
                return d.pop(k)
            if len(args) > 1:
                return args[1]
            _raise(KeyError, repr(k))
    if getattr(recv, "is_text", False):
        # contract-file hook `text_method(ip, st, recv, name, args, kwargs)`: a method of a modelled text that only this
        # contract models (e.g. str.encode with the abstract target encoding); NotImplemented falls through
        h = getattr(getattr(ip.task, "c", None), "text_method", None)
        if h is not None:
            r = h(ip, st, recv, name, args, kwargs)
            if r is not NotImplemented:
                return r
        # startswith / split / lstrip / partition / decode with an error handler: pyvc/textops.py
        from .textops import text_method as _tm

        r = _tm(ip, st, recv, name, args, kwargs)
        if r is not NotImplemented:
            return r
    if getattr(recv, "is_text", False) and name == "encode" and recv.kind == "str":
        from .text import utf8_encoded

        codec = (args[0] if args else kwargs.get("encoding", "utf-8"))
        if not isinstance(codec, str) or codec.lower().replace("_", "-") not in ("utf-8", "utf8"):
            raise Unsupported(f"str.encode({codec!r}) of a modelled text")
        enc_t, bad = utf8_encoded(st, recv)
        if st.branch(bad):
            _raise(UnicodeEncodeError, "surrogates not allowed")
        return enc_t
    if getattr(recv, "is_text", False) and name == "find" and 1 <= len(args) <= 2 and not kwargs:
        from .text import text_find

        return text_find(st, recv, args[0], args[1] if len(args) > 1 else 0)
    if getattr(recv, "is_text", False) and name == "isascii" and recv.kind == "str" and not args:
        from .text import isascii_of_text

        return isascii_of_text(st, recv)
    if getattr(recv, "is_text", False) and name == "upper" and recv.kind == "str" and not args:
        from .text import upper_of_char_text

        return upper_of_char_text(st, recv)
    if getattr(recv, "is_text", False) and name == "decode":
        # assumed contract on bytes.decode('utf-8'): raises UnicodeDecodeError on ill-formed input; otherwise
        # yields the characters successive decode steps yield (so the total width is the column difference)
        if recv.kind != "bytes":
            _raise(AttributeError, "'str' object has no attribute 'decode'")
        if st.fork(2) == 1:
            _raise(UnicodeDecodeError, "invalid utf-8")
        from .text import SText

        d = SText("str", st.fresh_int("decoded_len"), st.fresh_name("decoded"))
        st.assume(V._cmp(">=", d.length, 0))
        d.decoded_from = recv
        h = getattr(ip.task.c, "decode_model", None)
        if h is not None:
            h(st, recv, d)
        return d
    if isinstance(recv, SInt) and name == "to_bytes":
        # n.to_bytes(1, order): OverflowError unless 0 <= n <= 255 (CPython: negative or too big to convert),
        # else the one-byte bytes object holding n (either byte order)
        length = args[0] if args else kwargs.get("length", 1)
        if length != 1:
            raise Unsupported("int.to_bytes with a length other than 1")
        st.partial(both(V._cmp(">=", recv, 0), V._cmp("<=", recv, 255)), OverflowError, "int too big to convert")
        from .text import SText

        t = SText("bytes", 1, st.fresh_name("byte"))
        st.assume(t.f(z3.IntVal(0)) == recv.e)
        return t
    if isinstance(recv, SAtom) and name == "lower" and not args and not kwargs and all(isinstance(d, str) for d in recv.domain):
        # str.lower() of a value from a finite set of str constants: the finite map d -> d.lower(), each image
        # computed by CPython's own str.lower
        low = [d.lower() for d in recv.domain]
        e = z3.IntVal(V.atom_code(low[-1]))
        for d, l in zip(recv.domain[:-1], low[:-1]):
            e = z3.If(recv.e == V.atom_code(d), z3.IntVal(V.atom_code(l)), e)
        return SAtom(e, tuple(dict.fromkeys(low)))
    if isinstance(recv, SExc) and name == "with_traceback":
        return recv
    if isinstance(recv, tuple) and name == "index":
        x = args[0]
        conds, none_before = [], True
        for item in recv:
            e = ip.equals(st, item, x)
            conds.append(both(none_before, e))
            none_before = both(none_before, neg(e))
        conds.append(none_before)
        j = st.choose(conds)
        if j == len(recv):
            _raise(ValueError, "tuple.index(x): x not in tuple")
        return j
    raise Unsupported(f"method {name} of {type(recv).__name__}")


# --------------------------------------------------------------------------------------------- builtin functions


def b_len(ip, st, x):
    x = st.force(x)
    if hasattr(x, "py_force"):
        x = x.py_force(st)  # a lazily decoded value (protocol.force_lazy)
    if isinstance(x, ModelObj):
        return x.py_len(st)
    if getattr(x, "is_text", False):
        return x.length
    if isinstance(x, SObj):
        if x.base_list:
            return Q.seq_len(x.fields[x.base_list])
        return ip.call(st, ip.getattr(st, x, "__len__"), [])
    if isinstance(x, (tuple, SSeq, LRef, SRange, list)):
        return Q.seq_len(x)
    if isinstance(x, DRef):
        return len(x.d)
    if isinstance(x, SOpaque):
        return ip.task.opaque_len(ip, st, x)
    if isinstance(x, Sym):
        raise Unsupported(f"len of {type(x).__name__}")
    try:
        return len(x)
    except TypeError as ex:
        _raise(TypeError, str(ex))


def _flatten_args(ip, st, args):
    if len(args) == 1:
        v = ip.iter_view(st, st.force(args[0]))
        n = Q.seq_len(v)
        if not isinstance(n, int):
            raise Unsupported("min/max over a sequence of symbolic length")
        return [Q.seq_get(v, i) for i in range(n)]
    return list(args)


def _sym_extreme(ip, st, args, kw, want_max):
    """min()/max() of ONE integer sequence of symbolic length (CPython: an element of the sequence that bounds every
    element; `default` for an empty one, ValueError without it).  Model: the value is seq[w] for a fresh in-range
    witness index w (appended to st.ghost['extreme_witnesses'] so that contracts can instantiate per-index facts
    there); the bound `seq[k] <= seq[w]` (>= for min) is recorded with values.lazy_forall, not as a quantifier."""
    if len(args) != 1 or set(kw) - {"default"}:
        return NotImplemented
    v = ip.iter_view(st, st.force(args[0]))
    if isinstance(v, LRef):
        v = v.seq
    n = Q.seq_len(v)
    if isinstance(n, int):
        return NotImplemented
    if not st.branch(V._cmp(">", n, 0)):
        if "default" in kw:
            return kw["default"]
        _raise(ValueError, "max() arg is an empty sequence" if want_max else "min() arg is an empty sequence")
    w = st.fresh_int("argmax" if want_max else "argmin")
    st.assume(both(V._cmp(">=", w, 0), V._cmp("<", w, n)))
    # contract-side hooks `st.ghost["witness_hooks"]`: called with (sequence, witness index) BEFORE the element at the
    # witness is evaluated, so that a contract can instantiate facts it has proved for every index (per-index
    # postconditions / loop invariants proved by universal generalisation) at this index -- e.g. "every key of this
    # dict is positive" ahead of the division in `max(h / w for w, h in d.items())`.  Hooks may only assume such facts.
    for hook in list(st.ghost.get("witness_hooks", [])):
        hook(v, w)
    m = Q.seq_get(v, w)
    if not is_num(m):
        raise Unsupported("min/max over a symbolic sequence of non-numbers")
    bound = (lambda k: Q.seq_get(v, k) <= m) if want_max else (lambda k: Q.seq_get(v, k) >= m)
    V.lazy_forall(0, n, bound)
    # a short sequence (length provably <= 8 on this path, e.g. `max(attrs[i + 2 : i + 5])`): the bound is stated
    # for each of its positions outright (the same fact as the lazy quantifier, instantiated at 0..7)
    r0, _m = st._check(V._z(n) > 8, st.cfg.branch_timeout_ms)
    if r0 == z3.unsat:
        for k in range(8):
            st.assume(implies(V._cmp("<", k, n), bound(k)))
    st.ghost.setdefault("extreme_witnesses", []).append(w)
    return m


def _extremum_star(ip, st, args, want_max):
    """max(x1, .., xk, *seq) / min(..) with `seq` of symbolic length and k >= 1 integer arguments: a fresh
    integer r with its defining facts -- r bounds every explicit argument and every element of seq, and r
    is one of them (a witness index when it is an element).  CPython: max/min of ints returns the extreme
    value; with k >= 1 the argument list is never empty, so no ValueError.  Elements must be integers."""
    from .interp import StarArgs

    fixed = [st.force(x) for x in args[:-1]]
    seq = args[-1].seq
    if not fixed or any(x is None or not V.is_num(x) for x in fixed):
        raise Unsupported("max/min(*seq) of symbolic length needs at least one explicit integer argument")
    n = Q.seq_len(seq)
    r = st.fresh_int("max" if want_max else "min")
    op = ">=" if want_max else "<="
    for x in fixed:
        st.assume(V._cmp(op, r, x))

    def elt(j):
        e = Q.seq_get(seq, j)
        if not V.is_num(e) or isinstance(e, SBool):
            raise Unsupported("max/min(*seq) over non-integer elements")
        return e

    st.assume(V.forall(0, n, lambda j: V._cmp(op, r, elt(j))))
    jw = st.fresh_int("witness")
    st.assume(either(*[V._cmp("==", r, x) for x in fixed], both(V._cmp(">=", jw, 0), V._cmp("<", jw, n), V._cmp("==", r, elt(jw)))))
    return r


def b_min(ip, st, *args, **kw):
    if args and type(args[-1]).__name__ == "StarArgs":
        return _extremum_star(ip, st, args, False)
    r = _sym_extreme(ip, st, args, kw, False)
    if r is not NotImplemented:
        return r
    xs = [st.force(x) for x in _flatten_args(ip, st, args)]
    if not xs:
        if "default" in kw:
            return kw["default"]
        _raise(ValueError, "min() arg is an empty sequence")
    if any(x is None for x in xs):
        _raise(TypeError, "'<' not supported between NoneType and int")
    if all(isinstance(x, tuple) for x in xs):
        if _all_conc(xs):
            return min(xs)
        raise Unsupported("min of symbolic tuples")
    if len(xs) == 1:
        return xs[0]  # min([x]) is x (as in b_max)
    return imin(*xs)


def b_max(ip, st, *args, **kw):
    if args and type(args[-1]).__name__ == "StarArgs":
        return _extremum_star(ip, st, args, True)
    r = _sym_extreme(ip, st, args, kw, True)
    if r is not NotImplemented:
        return r
    xs = [st.force(x) for x in _flatten_args(ip, st, args)]
    if not xs:
        if "default" in kw:
            return kw["default"]
        _raise(ValueError, "max() arg is an empty sequence")
    if any(x is None for x in xs):
        _raise(TypeError, "'>' not supported between NoneType and int")
    if len(xs) == 1:
        return xs[0]  # max([x]) is x (values.imax with ONE argument takes it for the sequence to maximise)
    return imax(*xs)


def _all_conc(xs):
    return all(not isinstance(x, Sym) and (not isinstance(x, tuple) or _all_conc(x)) for x in xs)


def b_sum(ip, st, x, start=0):
    x = st.force(x)
    if isinstance(x, LRef):
        x = x.seq
    if isinstance(x, SSeq):
        return x.sum() + start
    v = ip.iter_view(st, x)
    r = start
    for i in range(Q.seq_len(v)):
        r = r + Q.seq_get(v, i)
    return r


def b_abs(ip, st, x):
    return abs(st.force(x))


def b_int(ip, st, x=0, base=None):
    x = st.force(x)
    if base is not None:
        if isinstance(x, ModelObj) and hasattr(x, "py_int_base"):
            return x.py_int_base(ip, st, base)  # int(<modelled str>, base): the model decides (value / ValueError)
        if isinstance(x, Sym):
            raise Unsupported("int(str, base) of symbolic text")
        try:
            return int(x, base)
        except (ValueError, TypeError) as ex:
            _raise(type(ex), str(ex))
    if isinstance(x, SReal):
        r = V.trunc_real(x)
        if getattr(st.cfg, "rounding_hints", False):
            _rounding_hint(st, x.e, r)
        return r
    if isinstance(x, SBool):
        return mk_int(V._z(x))
    if isinstance(x, SInt):
        return x
    if isinstance(x, ModelObj) and hasattr(x, "py_int"):
        return x.py_int(ip, st)  # int(<modelled str>): the model decides (value / ValueError)
    if x is None:
        _raise(TypeError, "int() argument must be a string, a bytes-like object or a real number, not 'NoneType'")
    if getattr(x, "is_text", False):
        from .textops import text_int

        return text_int(st, x)  # int(<bytes / str text>): a value or ValueError (pyvc/textops.py)
    if isinstance(x, Sym):
        raise Unsupported(f"int() of {type(x).__name__}")
    try:
        return int(x)
    except (ValueError, TypeError) as ex:
        _raise(type(ex), str(ex))


def _rounding_hint(st, xe, r):
    """For the rounding idiom q = int(n / t + 0.5) with integer terms n, t: state the consequence
    t > 0 and n >= 0  =>  2*t*q <= 2*n + t < 2*t*(q+1)
    (q = floor(n/t + 1/2) multiplied out by 2t > 0) - a valid fact of real arithmetic, added only because the
    solver's nonlinear reasoning finds it unreliably.  Switched on per contract (`rounding_hints = True`)."""
    if not (z3.is_add(xe) and xe.num_args() == 2):
        return
    a, b = xe.arg(0), xe.arg(1)
    if z3.is_rational_value(a):
        a, b = b, a
    if not (z3.is_rational_value(b) and b.numerator_as_long() == 1 and b.denominator_as_long() == 2 and z3.is_div(a)):
        return
    n, t = a.arg(0), a.arg(1)
    if not (z3.is_to_real(n) and z3.is_to_real(t)):
        return
    n, t, q = n.arg(0), t.arg(0), V._z(r)
    st.assume(z3.Implies(z3.And(t > 0, n >= 0), z3.And(2 * t * q <= 2 * n + t, 2 * n + t < 2 * t * (q + 1))))


def b_float(ip, st, x=0.0):
    x = st.force(x)
    if isinstance(x, (SInt, SBool)):
        return SReal(z3.ToReal(V._z(x)))
    if isinstance(x, SReal):
        return x
    return float(x)


def b_round(ip, st, x, nd=None):
    x = st.force(x)
    if nd is not None:
        raise Unsupported("round with ndigits")
    if isinstance(x, (int, SInt)):
        return x
    if isinstance(x, SReal):
        # banker's rounding
        fl = z3.ToInt(x.e)
        frac = x.e - z3.ToReal(fl)
        half = z3.RealVal("1/2")
        return mk_int(z3.If(frac < half, fl, z3.If(frac > half, fl + 1, z3.If(fl % 2 == 0, fl, fl + 1))))
    return round(x)


def b_bool(ip, st, x=False):
    if isinstance(x, SBool):
        return x
    if isinstance(x, (SInt, SReal)):
        return mk_bool(x.e != 0)
    return ip.truth(st, x)


def b_range(ip, st, *args):
    args = [st.force(a) for a in args]
    if any(a is None for a in args):
        _raise(TypeError, "'NoneType' object cannot be interpreted as an integer")
    if all(isinstance(a, int) for a in args):
        try:
            return tuple(range(*args)) if len(range(*args)) <= 64 else SRange(*(args if len(args) > 1 else (0, args[0])), *(() if len(args) == 3 else (1,)))
        except ValueError as ex:
            _raise(ValueError, str(ex))
    if len(args) == 1:
        return SRange(0, args[0], 1)
    if len(args) == 2:
        return SRange(args[0], args[1], 1)
    st.partial(V._cmp("!=", args[2], 0), ValueError, "range() arg 3 must not be zero")
    return SRange(*args)


def b_list(ip, st, x=()):
    x = st.force(x)
    if isinstance(x, LRef):
        return LRef(x.seq)
    if isinstance(x, SObj) and x.base_list:
        return LRef(x.fields[x.base_list].seq)
    if isinstance(x, SRange):
        return LRef(Q.to_sseq(x))
    if isinstance(x, SSeq):
        return LRef(x)
    return LRef(tuple(ip.iter_view(st, x)) if not isinstance(ip.iter_view(st, x), (SSeq, LRef)) else ip.iter_view(st, x))


def b_tuple(ip, st, x=()):
    x = st.force(x)
    if isinstance(x, tuple):
        return x
    if isinstance(x, LRef):
        return x.seq
    if isinstance(x, SSeq):
        return x
    v = ip.iter_view(st, x)
    return v if isinstance(v, tuple) else (v.seq if isinstance(v, LRef) else v)


def b_isinstance(ip, st, x, cls):
    x = st.force(x)
    classes = cls if isinstance(cls, tuple) else (cls,)

    def one(c):
        if isinstance(x, SBool):
            return issubclass(bool, c)
        if isinstance(x, SInt):
            return issubclass(int, c)
        if isinstance(x, SReal):
            return issubclass(float, c)
        if getattr(x, "is_text", False):
            return issubclass(str if x.kind == "str" else bytes, c)
        if isinstance(x, SOpaque) and x.kind == "Char":
            return issubclass(str, c)
        if isinstance(x, SSlice):
            return issubclass(slice, c)
        if isinstance(x, LRef):
            return issubclass(list, c)
        if isinstance(x, (SSeq,)):
            return issubclass(tuple, c)
        if isinstance(x, DRef):
            return issubclass(dict, c)
        if isinstance(x, SRange):
            return issubclass(range, c)
        if isinstance(x, SObj):
            return issubclass(x.cls, c)
        if isinstance(x, SAtom):
            rs = {isinstance(d, c) for d in x.domain}
            if len(rs) == 1:
                return rs.pop()
            r = False
            for d in x.domain:
                if isinstance(d, c):
                    r = either(r, x == d)
            return r
        if isinstance(x, SOpaque):
            return ip.task.opaque_isinstance(ip, st, x, c)
        if isinstance(x, SExc):
            return issubclass(x.cls, c)
        if isinstance(x, ModelObj) and getattr(x, "py_class", None) is not None:
            return issubclass(x.py_class, c)  # a model of a builtin type (pyvc.fmap.SFMap models dict)
        if isinstance(x, ModelObj) and hasattr(x, "py_isinstance"):
            # a modelled value that stands for an instance of a builtin class (e.g. a modelled str): the model says
            # whether that class is a subclass of c, as CPython's isinstance does for the value it stands for
            return x.py_isinstance(c)
        if isinstance(x, Sym):
            raise Unsupported(f"isinstance of {type(x).__name__}")
        from .interp import FnVal

        if isinstance(x, FnVal):
            return c in (types.FunctionType, object) or c is getattr(__import__("collections.abc").abc, "Callable", None)
        return isinstance(x, c)

    r = False
    for c in classes:
        r = either(r, one(c))
    return r


def b_dict(ip, st, *args, **kwargs):
    """dict(x): a new dict with x's entries in x's order -- for a dict with symbolic keys (pyvc.fmap.SFMap) and for a
    constant-key dict (DRef); anything else as before (native evaluation on concrete data, else Unsupported)."""
    if len(args) == 1 and not kwargs:
        x = st.force(args[0])
        if isinstance(x, ModelObj) and getattr(x, "py_class", None) is dict:
            return x.py_call(ip, st, "copy", [], {})  # (SFMap: a new SFMap; an instance __dict__ view: a constant-key dict)
        if isinstance(x, DRef):
            return DRef(x.d)
    if _all_conc(args) and _all_conc(list(kwargs.values())):
        try:
            return dict(*args, **kwargs)
        except Exception as ex:  # noqa: BLE001
            _raise(type(ex), str(ex))
    r = ip.task.call_real(ip, st, dict, list(args), kwargs)  # a contract's own model of dict(<its model value>)
    if r is not NotImplemented:
        return r
    raise Unsupported("call of 'dict' with symbolic arguments")


def b_slice(ip, st, *args):
    if len(args) == 1:
        return SSlice(None, args[0], None)
    if len(args) == 2:
        return SSlice(args[0], args[1], None)
    return SSlice(*args)


def b_enumerate(ip, st, x, start=0):
    v = ip.iter_view(st, st.force(x))
    if isinstance(v, LRef):
        inner = v

        class _Live(SSeq):
            pass

        s = SSeq(None, lambda i: (i + start, Q.seq_get(inner, i)), None, None, "enum")
        s.__class__ = type("LiveEnum", (SSeq,), {"length": property(lambda self: Q.seq_len(inner))})
        return s
    n = Q.seq_len(v)
    if isinstance(n, int) and isinstance(v, tuple):
        return tuple((i + start, v[i]) for i in range(n))
    return SSeq(n, lambda i: (i + start, Q.seq_get(v, i)), None, None, "enum")


def b_zip(ip, st, *xs, strict=False):
    vs = [ip.iter_view(st, st.force(x)) for x in xs]
    ns = [Q.seq_len(v) for v in vs]
    if all(isinstance(n, int) for n in ns):
        return tuple(tuple(Q.seq_get(v, i) for v in vs) for i in range(min(ns)))
    return SSeq(imin(*ns), lambda i: tuple(Q.seq_get(v, i) for v in vs), None, None, "zip")


def b_reversed(ip, st, x):
    v = ip.iter_view(st, st.force(x))
    if isinstance(v, LRef) and isinstance(v.seq, tuple):
        v = v.seq
    n = Q.seq_len(v)
    if isinstance(v, tuple):
        return tuple(reversed(v))
    return SSeq(n, lambda i: Q.seq_get(v, n - 1 - i), getattr(v, "shape", None), None, "reversed")


def _quantified_any_all(ip, st, v, want_any):
    """any()/all() over a sequence of symbolic length whose elements are booleans: a fresh boolean with
    its defining quantified facts (witness / universal)."""
    n = Q.seq_len(v)

    def elt(j):
        e = Q.seq_get(v, j)
        if isinstance(e, (SBool, bool)):
            return e
        raise Unsupported("any()/all() over a symbolic sequence of non-boolean elements")

    r = st.fresh_bool("any" if want_any else "all")
    jw = st.fresh_int("witness")
    if want_any:
        st.assume(V.implies(r, both(V._cmp(">=", jw, 0), V._cmp("<", jw, n))))
        if st.branch(r):
            st.assume(elt(jw))
        else:
            st.assume(V.forall(0, n, lambda j: neg(elt(j))))
        return r
    st.assume(V.implies(neg(r), both(V._cmp(">=", jw, 0), V._cmp("<", jw, n))))
    if st.branch(r):
        st.assume(V.forall(0, n, lambda j: elt(j)))
    else:
        st.assume(neg(elt(jw)))
    return r


def b_any(ip, st, x):
    if isinstance(x, Q.GuardedSeq):
        return x.fold_any()
    v = ip.iter_view(st, st.force(x))
    if isinstance(v, LRef):
        v = v.seq
    if not isinstance(Q.seq_len(v), int):
        return _quantified_any_all(ip, st, v, True)
    r = False
    for i in range(_conc_len(v)):
        r = either(r, b_bool(ip, st, Q.seq_get(v, i)))
    return r


def b_all(ip, st, x):
    if isinstance(x, Q.GuardedSeq):
        return x.fold_all()
    v = ip.iter_view(st, st.force(x))
    if isinstance(v, LRef):
        v = v.seq
    if not isinstance(Q.seq_len(v), int):
        return _quantified_any_all(ip, st, v, False)
    r = True
    for i in range(_conc_len(v)):
        r = both(r, b_bool(ip, st, Q.seq_get(v, i)))
    return r


def _conc_len(v):
    n = Q.seq_len(v)
    if not isinstance(n, int):
        raise Unsupported("any/all over a sequence of symbolic length")
    return n


def b_divmod(ip, st, a, b):
    a, b = st.force(a), st.force(b)
    return (a // b, a % b)


def b_sorted(ip, st, x, key=None, reverse=False):
    v = ip.iter_view(st, st.force(x))
    if isinstance(v, tuple) and _all_conc(v) and key is None:
        return LRef(tuple(sorted(v, reverse=bool(reverse))))
    if isinstance(v, LRef):
        v = v.seq
    if key is None and reverse is False and isinstance(v, SSeq):
        return LRef(sorted_model(st, v))
    raise Unsupported("sorted() of symbolic sequence")


def lex_le(a, b):
    """a <= b for ints or equal-length tuples of ints (lexicographic), as a formula; dual use."""
    if not isinstance(a, tuple):
        return a <= b
    r = True
    for x, y in reversed(list(zip(a, b))):
        r = either(x < y, both(x == y, r))
    return r


def sorted_model_holds(inp, out, perm):
    """The assumed contract of `sorted(inp)` for a list of ints / equal-length int tuples, executable form
    (cross-checked against CPython's sorted): `out` has the length of `inp`, is `inp` rearranged by the bijection
    `perm` (out[i] = inp[perm[i]]), is ascending (lexicographically for tuples), and - a consequence of being a
    rearrangement, stated because the symbolic model cannot derive it without induction - every component has
    the same total."""
    n = len(inp)
    if len(out) != n or sorted(perm) != list(range(n)):
        return False
    if any(out[i] != inp[perm[i]] for i in range(n)):
        return False
    if any(not lex_le(out[i], out[i + 1]) for i in range(n - 1)):
        return False
    comps = [None] if not (inp and isinstance(inp[0], tuple)) else range(len(inp[0]))
    return all(sum(x if c is None else x[c] for x in inp) == sum(x if c is None else x[c] for x in out) for c in comps)


def sorted_model(st, base):
    """Assumed contract of `sorted(base)` (no key, ascending) for a sequence of symbolic length whose elements
    are ints or tuples of ints - the symbolic form of `sorted_model_holds`:
      result[i] = base[perm(i)] with perm a bijection of [0, n) (inverse `inv`), adjacent elements ascending
      (lexicographic), and for each int component the total of the result equals the total of the input
      (component prefix sums: seqs.comp_psum).  The result carries `.sort_perm`, `.sort_inv`, `.sorted_of`."""
    from . import shapes as S

    shp = base.shape
    if isinstance(shp, S._Int):
        comps = [None]
    elif isinstance(shp, S.Tup) and shp.items and all(isinstance(x, S._Int) for x in shp.items):
        comps = list(range(len(shp.items)))
    else:
        raise Unsupported(f"sorted() of a symbolic sequence of {shp!r} (only ints / tuples of ints are modelled)")
    n = base.length
    perm = z3.Function(st.fresh_name("sortperm"), z3.IntSort(), z3.IntSort())
    inv = z3.Function(st.fresh_name("sortinv"), z3.IntSort(), z3.IntSort())
    zp = lambda t: mk_int(perm(V._z(t)))  # noqa: E731
    zi = lambda t: mk_int(inv(V._z(t)))  # noqa: E731
    res = SSeq(n, lambda i: base.get(zp(i)), shp, None, st.fresh_name("sorted"))
    res.sort_perm, res.sort_inv, res.sorted_of = zp, zi, base
    st.assume(V.forall(0, n, lambda i: both(zp(i) >= 0, zp(i) < n, zi(zp(i)) == i)))
    st.assume(V.forall(0, n, lambda j: both(zi(j) >= 0, zi(j) < n, zp(zi(j)) == j)))
    st.assume(V.forall(0, n - 1, lambda i: lex_le(res.get(i), res.get(i + 1))))
    for c in comps:
        st.assume(Q.comp_psum(res, c, n) == Q.comp_psum(base, c, n))
    return res


def b_hasattr(ip, st, obj, name):
    obj = st.force(obj)
    if isinstance(obj, SObj):
        if name in obj.fields:
            return True
        return hasattr(obj.cls, name)
    if isinstance(obj, SOpaque):
        return ip.task.opaque_hasattr(ip, st, obj, name)
    if isinstance(obj, Sym):
        raise Unsupported(f"hasattr on {type(obj).__name__}")
    return hasattr(obj, name)


def b_getattr(ip, st, obj, name, *default):
    try:
        return ip.getattr(st, obj, name)
    except PyRaise as pr:
        if default and issubclass(pr.exc.cls, AttributeError):
            return default[0]
        raise


def b_callable(ip, st, x):
    from .interp import FnVal, Method

    x = st.force(x)
    if isinstance(x, (FnVal, Method)):
        return True
    if isinstance(x, SOpaque):
        return bool(x.meta.get("callable", False))
    if isinstance(x, Sym):
        return False
    return callable(x)


def b_ord(ip, st, c):
    if isinstance(c, SOpaque) and c.kind == "Char":
        from .text import char_ord

        return char_ord(c)
    if getattr(c, "is_text", False):
        # ord(s): TypeError unless len(s) == 1; then the code point of the character / the value of the byte
        from .text import char_ord

        st.partial(V._cmp("==", c.length, 1) if V.is_sym(c.length) else c.length == 1, TypeError, "ord() expected a character")
        e = c.get(0)
        return char_ord(e) if c.kind == "str" else e
    if isinstance(c, Sym):
        return ip.task.sym_ord(ip, st, c)
    try:
        return ord(c)
    except TypeError as ex:
        _raise(TypeError, str(ex))


def b_chr(ip, st, n):
    n = st.force(n)
    if isinstance(n, Sym):
        st.partial(both(V._cmp(">=", n, 0), V._cmp("<", n, 0x110000)), ValueError, "chr() arg not in range(0x110000)")
        from .text import chr_of

        return chr_of(n)
    try:
        return chr(n)
    except ValueError as ex:
        _raise(ValueError, str(ex))


def b_next(ip, st, it, *default):
    if isinstance(it, ListIter):
        if default and not it.more(st):
            return default[0]
        return it.step(ip, st)
    if isinstance(it, ModelObj):
        return it.py_call(ip, st, "__next__", [], {})
    raise Unsupported("next() of a non-model iterator")


class ListIter(ModelObj):
    """`iter(<list or tuple>)` -- CPython's list / tuple iterator: (the sequence OBJECT, an index).  `next()` hands
    out `seq[index]` and increments while `index < len(seq)` as the list is NOW (a list iterator sees items appended
    after it was created); once it has raised StopIteration it stays exhausted, whatever is appended later (CPython
    drops its reference to the list).  `for x in it` advances it one item per iteration and leaves it where a `break`
    stopped (Interp.s_For); `list(it)`, `tuple(it)`, `lst.extend(it)`, a comprehension over it drain what is left.
    `iter(it)` is `it`.  The index is a concrete number (it only moves by these operations), so a path forks only on
    "is there another item" when the length is symbolic.  An iterator is always true.
    Cross-check against CPython on concrete lists: contracts/C20_shards.py static check
    `list-iterator-model-agrees-with-cpython`."""

    is_iterator = True

    def __init__(self, src):
        self.src = src  # LRef (live list) or an immutable sequence value
        self.pos = 0
        self.done = False

    def more(self, st):
        if self.done:
            return False
        n = Q.seq_len(self.src)
        more = (self.pos < n) if isinstance(n, int) else st.branch(V._cmp("<", self.pos, n))
        if not more:
            self.done = True
        return more

    def step(self, ip, st):
        if not self.more(st):
            _raise(StopIteration, "")
        e = ip._iter_elem(self.src, self.pos)
        self.pos += 1
        return e

    def py_call(self, ip, st, name, args, kwargs):
        if name == "__next__" and not args and not kwargs:
            return self.step(ip, st)
        if name == "__iter__" and not args and not kwargs:
            return self
        raise Unsupported(f"method {name} of a list iterator")

    def py_iter(self, ip, st):
        """Drain: the items from the index on, as a sequence value; the iterator is exhausted afterwards."""
        if self.done:
            return ()
        rest = get_subscript(ip, st, self.src, SSlice(self.pos, None, None))
        self.done = True
        return rest.seq if isinstance(rest, LRef) else rest


def b_iter(ip, st, x, *sentinel):
    if sentinel:
        raise Unsupported("iter(callable, sentinel)")
    x = st.force(x)
    if isinstance(x, ListIter):
        return x
    if isinstance(x, (LRef, tuple)) or (isinstance(x, SSeq) and not getattr(x, "is_text", False)):
        if isinstance(x, LRef) and Q.is_nested(x.seq):
            raise Unsupported("iter() of a nested list")
        return ListIter(x)
    raise Unsupported(f"iter() of {type(x).__name__}")


def b_id(ip, st, x):
    raise Unsupported("id()")


def b_setattr(ip, st, obj, name, value):
    ip.setattr(st, obj, name, value)
    return None


def b_chain(ip, st, *parts):
    r = ()
    for p in parts:
        v = ip.iter_view(st, st.force(p))
        if isinstance(v, LRef):
            v = v.seq
        r = Q.seq_concat(r, v)
    return r


def b_suppress(ip, st, *classes):
    return ("suppress", tuple(classes))


def b_wraps(ip, st, fn, **kw):
    return ("wraps", fn)


def b_partial(ip, st, fn, *args, **kw):
    raise Unsupported("functools.partial")


class _UDE(UnicodeDecodeError):
    pass


TABLE = {
    len: b_len,
    min: b_min,
    max: b_max,
    sum: b_sum,
    abs: b_abs,
    int: b_int,
    float: b_float,
    round: b_round,
    bool: b_bool,
    range: b_range,
    list: b_list,
    tuple: b_tuple,
    isinstance: b_isinstance,
    dict: b_dict,
    slice: b_slice,
    enumerate: b_enumerate,
    zip: b_zip,
    reversed: b_reversed,
    any: b_any,
    all: b_all,
    divmod: b_divmod,
    sorted: b_sorted,
    hasattr: b_hasattr,
    getattr: b_getattr,
    callable: b_callable,
    ord: b_ord,
    chr: b_chr,
    id: b_id,
    contextlib.suppress: b_suppress,
    setattr: b_setattr,
    next: b_next,
    iter: b_iter,
    __import__("itertools").chain: b_chain,
    functools.wraps: b_wraps,
}


def _install_textops():
    from .textops import b_bytearray, b_bytes

    TABLE[bytes] = b_bytes  # bytes([ints]) with symbolic items; everything concrete stays CPython's own bytes()
    TABLE[bytearray] = b_bytearray


_install_textops()


def call_builtin(ip, st, f, args, kwargs):
    impl = TABLE.get(f) if isinstance(f, (type, types.BuiltinFunctionType, types.FunctionType)) else None
    if impl is not None:
        return impl(ip, st, *args, **kwargs)
    r = ip.task.call_real(ip, st, f, args, kwargs)
    if r is not NotImplemented:
        return r
    if isinstance(f, (types.MethodDescriptorType, types.WrapperDescriptorType)) and getattr(f, "__objclass__", None) is list and args \
            and isinstance(args[0], SObj) and getattr(args[0], "base_list", None):
        # `list.<method>(self, ...)` on an object of a list subclass: the unbound form of `super().<method>(...)` when
        # list is the next class in the MRO that defines it -- the same single list operation on the object's own
        # list part, recorded in its ghost trace of list operations (x.__delitem__(i) is `del x[i]`, etc.)
        obj, rest, name = args[0], list(args[1:]), f.__name__
        lref = obj.fields[obj.base_list]
        if name == "__delitem__" and len(rest) == 1 and not kwargs:
            r = list_delitem(ip, st, lref, st.force(rest[0]))
        elif name == "__setitem__" and len(rest) == 2 and not kwargs:
            r = list_setitem(ip, st, lref, st.force(rest[0]), rest[1])
        else:
            r = list_method(ip, st, lref, name, rest, kwargs)
        obj.trace.append(("list-op", name, getattr(lref, "last_removed", None)))
        return r
    if isinstance(f, operator.attrgetter) and len(args) == 1 and not kwargs:
        # operator.attrgetter('a.b', ...)(obj): CPython reads the (dotted) attributes of obj, one value for one name,
        # a tuple for several.  The names are recovered from the object's pickle form (attrgetter, names).
        names = f.__reduce__()[1]  # (cross-check: static check `engine-rules-agree-with-cpython`, contracts/C19_gridflow.py)

        def read(name):
            o = args[0]
            for part in name.split("."):
                o = ip.getattr(st, o, part)
            return o

        return read(names[0]) if len(names) == 1 else tuple(read(n) for n in names)
    if isinstance(f, type) and issubclass(f, BaseException):
        return SExc(f, args)
    if is_namedtuple_class(f):
        return namedtuple_new(f, args, kwargs)
    if isinstance(f, tuple) and f and f[0] == "wraps":
        return args[0]  # functools.wraps(fn)(wrapper) -> wrapper
    # a real repository function object (module-level): map to its AST
    if isinstance(f, types.FunctionType):
        from . import source as SRC
        from .interp import FnVal

        m = SRC.module_of_real(f.__module__)
        if m is not None:
            try:
                ref = SRC.resolve(f"{m.relpath}:{f.__qualname__}")
            except KeyError:
                ref = None
            if ref is not None:
                return ip.call_fnval(st, FnVal(ref), args, kwargs)
    if isinstance(f, types.FunctionType) and f.__name__ == "<lambda>":
        fv = real_lambda(ip, st, f)
        if fv is not None:
            return ip.call_fnval(st, fv, args, kwargs)
    if isinstance(f, types.MethodType):
        raise Unsupported(f"call of bound real method {f!r}")
    # "sep".join(list) where the list has a concrete length and concrete str items on this path: CPython's own join
    # on a snapshot of the items (a list is a reference value here, hence not covered by the native rule below)
    if getattr(f, "__name__", "") == "join" and isinstance(getattr(f, "__self__", None), str) and len(args) == 1 and not kwargs:
        items = args[0].seq if isinstance(args[0], LRef) else args[0]
        if isinstance(items, tuple) and all(isinstance(x, str) for x in items):
            return f(list(items))
    # b"".rjust(n) / " ".ljust(n, "x") on a str / bytes CONSTANT with a symbolic width: the derived text of pyvc/textops.text_just
    if getattr(f, "__name__", "") in ("rjust", "ljust") and type(getattr(f, "__self__", None)) in (str, bytes) and not (_all_conc(args) and _all_conc(list(kwargs.values()))):
        from .text import as_text
        from .textops import text_method as _tm

        r = _tm(ip, st, as_text(f.__self__), f.__name__, args, kwargs)
        if r is not NotImplemented:
            return r
    # concrete call on concrete data of immutable builtin types: evaluate natively
    if _all_conc(args) and _all_conc(list(kwargs.values())) and _native_ok(f, args):
        try:
            return f(*args, **kwargs)
        except Exception as ex:  # noqa: BLE001
            _raise(type(ex), str(ex))
    raise Unsupported(f"call of {getattr(f, '__qualname__', f)!r} with symbolic arguments")


def is_namedtuple_class(f):
    return isinstance(f, type) and issubclass(f, tuple) and f is not tuple and isinstance(getattr(f, "_fields", None), tuple) and f.__new__ is not tuple.__new__ and "__init__" not in f.__dict__


class NTuple(tuple):
    """Value of a `typing.NamedTuple` / `collections.namedtuple` constructor call: a tuple (every tuple operation
    -- unpacking, indexing, len, iteration, equality with a plain tuple -- is the tuple's own) that remembers its
    class, so that the interpreter can also read a component by field name (`Interp.getattr`)."""

    nt_cls = None

    def __new__(cls, nt_cls, items):
        self = tuple.__new__(cls, items)
        self.nt_cls = nt_cls
        return self


def namedtuple_new(cls, args, kwargs):
    """`cls(*args, **kwargs)` for a NamedTuple class: CPython's generated `__new__(_cls, f1, f2=default, ...)` binds
    the arguments like an ordinary signature over `_fields` with `_field_defaults`, raises TypeError for a missing /
    surplus / repeated / unknown argument, and the components are stored unconverted (no coercion, no validation).
    Dual use: the components may be symbolic values (they are only stored) -- cross-checked against the real classes
    on plain values by the static check `namedtuple-model-agrees-with-cpython` of contracts/C07_listbox.py."""
    fields = cls._fields
    defaults = getattr(cls, "_field_defaults", {})
    if len(args) > len(fields):
        _raise(TypeError, f"{cls.__name__}() takes {len(fields)} positional arguments but {len(args)} were given")
    vals = dict(zip(fields, args))
    for k, v in kwargs.items():
        if k not in fields:
            _raise(TypeError, f"{cls.__name__}() got an unexpected keyword argument {k!r}")
        if k in vals:
            _raise(TypeError, f"{cls.__name__}() got multiple values for argument {k!r}")
        vals[k] = v
    for k in fields:
        if k not in vals:
            if k not in defaults:
                _raise(TypeError, f"{cls.__name__}() missing required argument {k!r}")
            vals[k] = defaults[k]
    return NTuple(cls, [vals[k] for k in fields])
def real_lambda(ip, st, f):
    """A real `lambda` object of a repository module that was created at module level and stored in data (e.g. the
    callbacks in vterm.CSI_COMMANDS): the FnVal of its AST, or None.  CPython records where the lambda's code starts
    (`__code__.co_firstlineno`, and since 3.11 the column in `co_positions()`); the AST node is the `ast.Lambda` of
    the module at that position with the same parameter names.  Only closure-free lambdas without defaults whose
    globals are the module's (module-level definitions) are accepted: their free names are then module globals,
    which is how the interpreter resolves them.  Ambiguity (two candidates) -> None (the call stays Unsupported).
    Cross-check against CPython: contracts/C15_parser.py static check `real-lambdas-map-to-their-ast`."""
    import ast

    from . import source as SRC
    from .interp import FnVal, Frame

    m = SRC.module_of_real(getattr(f, "__module__", "") or "")
    if m is None or f.__closure__ or f.__defaults__ or f.__kwdefaults__ or f.__globals__ is not m.real.__dict__:
        return None
    code = f.__code__
    names = list(code.co_varnames[: code.co_argcount])
    col = None
    try:
        pos = next(iter(code.co_positions()), None)
        # (the first instruction of a lambda's code is RESUME, positioned at the lambda expression itself)
        col = pos[2] if pos and pos[0] == code.co_firstlineno else None
    except Exception:  # noqa: BLE001
        col = None
    cands = [n for n in ast.walk(m.tree) if isinstance(n, ast.Lambda) and n.lineno == code.co_firstlineno and [a.arg for a in n.args.posonlyargs + n.args.args] == names
             and not n.args.vararg and not n.args.kwarg and not n.args.kwonlyargs and not n.args.defaults]
    if len(cands) > 1 and col is not None:
        cands = [n for n in cands if n.col_offset == col]
    if len(cands) != 1:
        return None
    fv = ip.e_Lambda(st, cands[0], Frame(None, m))
    fv.ref.qualname = f"<lambda@{cands[0].lineno}>"
    fv.closure = Frame(None, m)
    return fv


def _native_ok(f, args):
    owner = getattr(f, "__self__", None)
    if isinstance(owner, (str, bytes, int, tuple, frozenset, float, set)):
        return True
    if isinstance(f, type) and (issubclass(f, (str, bytes, frozenset, enum.Enum)) or f in (dict, set)):
        return True
    if f in (repr, str, format, hash, type, issubclass, bytes, frozenset, hex, oct, bin, pow):
        return True
    if getattr(f, "__module__", None) in ("math", "operator", "unicodedata", "_operator"):
        return True
    return False
