#!/bin/sh
# Build the overlay interpreter /verif/.venv (idempotent, offline): /venv's python 3.12 (has the
# working-tree urwid, editable from /repo) + z3/cvc5/crosshair/deal/icontract/jsonschema wheels.
set -e
cd "$(dirname "$0")"
V=.venv
if [ -x "$V/bin/python" ] && "$V/bin/python" -c 'import z3, urwid, jsonschema' 2>/dev/null; then
  exit 0
fi
rm -rf "$V"
/venv/bin/python -m venv "$V"
PIP_NO_INDEX=1 "$V/bin/pip" install -q --no-index --find-links /opt/veriftools/wheels \
    z3-solver cvc5 crosshair-tool deal icontract jsonschema hypothesis >/dev/null 2>&1 || \
PIP_NO_INDEX=1 "$V/bin/pip" install -q --no-index --find-links /opt/veriftools/wheels z3-solver cvc5 jsonschema
SP=$("$V/bin/python" -c 'import site; print(site.getsitepackages()[0])')
echo "import site; site.addsitedir('/venv/lib/python3.12/site-packages')" > "$SP/overlay.pth"
"$V/bin/python" -c 'import z3, urwid, jsonschema; print("overlay venv ok", z3.get_version_string(), urwid.__file__)'
